"""C13 — waste handling never hangs, stays bounded and accounts for every item.

Two explorations of the real `Lysosome` (and `AutophagyDaemon.check_and_prune` as one more
ingesting caller):

A. Engine A: BFS over sequential operation histories per configuration (max_queue_size,
   auto_digest_threshold, retention). Every ingested item carries a unique id and a behaviour
   tag that decides what its digester / toxic callback does when it is eventually processed
   (return with recycle material, return empty, raise) — the digester choice points are folded
   into the operation alphabet. Every lock in the instance state (found by type, wherever it is kept) is
   replaced by `sched.CoopLock`: a self re-acquire of a non-re-entrant lock raises `HangDetected` =
   "this call never returns".
B. Engine C: 2 threads x 1-3 operations on one lysosome under the controlled scheduler
   (every source line of lysosome.py is a scheduling point, deadlock = detected state).

Observation points for conservation: the harness digesters and `on_toxic` (who was processed, with
which result, during which public call), the captured module logger, every returned DigestResult,
autophagy's return value, `get_statistics()` / `get_queue_status()` / `get_recycled()`.

The lysosome is driven and observed through its public API only. Three things the public API does not offer are
done generically over `vars(lysosome)` (recursively: containers, private helper objects), never by attribute name:
the IDENTITY of what is still queued (= the `Waste` objects reachable from the instance state, in container order;
the public views only give sizes and per-type counts), cloning a state (value copy of the whole instance state,
bound methods re-bound to the copy, locks re-created by type) and finding the locks.

Dimensions besides (max_queue_size, auto_digest_threshold, retention): `silent` (console output is
swallowed by a module-level `print`), the digester registry (`custom`: harness digesters for all four
non-sensitive types + on_toxic in the constructor; `partial`: harness digesters for two types only, the
others fall back to the built-in ones, on_toxic assigned after construction; `builtin`: no digesters,
no on_toxic), retention 0, digester answers (dict / {} / None / 0 / a non-dict / raising with and
without a message, several exception classes / re-entering the lysosome), on_toxic answers, further
instances in the same process (`decoy`: one built from separate argument objects, one built from the SAME
caller-owned `digesters` dict object as the first - each with its own on_toxic, each judged by the normal oracle,
then the first one again), the construction order (`born='second'`: the instance under test is the second one built
from the caller's dict) and `clear_recycling_bin`. The harness digesters live in a caller-owned `Args` object (the
dict the constructor is given); whose public call is under judgement decides which box they report to.

Which "path" an item was processed on (digest / auto-digest / emergency) is derived from the public
call under judgement (its kind, and for an ingest whether the queue was at capacity), never from the
implementation's call stack or state.
"""
from __future__ import annotations

import collections
import datetime as _dt
import enum
import logging
import re
import sys
import threading
import types

from mc import common, explore, sched, vclock

import operon_ai.healing.autophagy_daemon as apd
import operon_ai.organelles.lysosome as lyso
from operon_ai.organelles.lysosome import DigestResult, Lysosome, WasteType
from operon_ai.state.histone import HistoneStore

_RealWaste = getattr(lyso.Waste, "_c13_real", lyso.Waste)  # the dataclass, even if this module is imported twice
LYSO_FILE = lyso.__file__
NONTOXIC = ("MISFOLDED_PROTEIN", "EXPIRED_CACHE", "FAILED_OPERATION", "ORPHANED_RESOURCE")
TOXIC = "TOXIC_BYPRODUCT"
INGEST_KINDS = ("ingest", "ingest_error", "ingest_sensitive", "daemon_prune")
_BOOM = re.compile(r"boom#(\d+)#")
_CTX = re.compile(r"id=(\d+) beh=(\w+)")
MODES = ("custom", "partial", "builtin")
CUSTOM_TYPES = {"custom": NONTOXIC, "partial": ("FAILED_OPERATION", "ORPHANED_RESOURCE"), "builtin": ()}
# A digester that re-enters the lysosome while the queue is at capacity recurses through the emergency digest on the
# pinned tree (the oldest half is still queued while its digesters run). Re-entering digesters are outside the
# property's quantifier ("digesters that raise"); they are explored where the capacity path is unreachable
# (auto_digest_threshold <= max_queue_size). Flip this once the emergency path pops before it digests.
REENTER_AT_CAPACITY = False

# what a harness digester answers, by behaviour tag
RETURNS = {"recycle": lambda i: {f"r{i}": i}, "empty": lambda i: {}, "none": lambda i: None, "zero": lambda i: 0,
           "odd": lambda i: [i], "ok": lambda i: {"leak": f"SECRET{i}"}}
RAISES = {"raise": lambda i: RuntimeError(f"boom#{i}#"), "raise_empty": lambda i: ValueError(),
          "raise_stop": lambda i: StopIteration(), "raise_key": lambda i: KeyError("")}


# ---- owning time and the logger ---------------------------------------------------------------

def _vwaste(*a, **kw):
    """`Waste(...)` built inside the library (ingest_error, ingest_sensitive, the daemon) takes its
    created_at from a dataclass default bound to the real clock at import; stamp virtual time."""
    if len(a) < 4 and "created_at" not in kw:
        kw["created_at"] = vclock.SWITCH.now()
    return _RealWaste(*a, **kw)


_vwaste._c13_wrapper = True
_vwaste._c13_real = _RealWaste


class _Capture(logging.Handler):
    sink = None

    def emit(self, record):
        if _Capture.sink is not None:
            _Capture.sink.append(record.getMessage())


def _quiet_print(*a, **kw):
    pass


_SETUP = False


def _setup():
    global _SETUP
    if _SETUP:
        return
    _SETUP = True
    vclock.install_global([lyso, apd])
    lyso.Waste = _vwaste
    apd.Waste = _vwaste
    # silent=False: the library prints; a module-level `print` keeps the check quiet (the messages are still built)
    lyso.print = _quiet_print
    apd.print = _quiet_print
    lg = logging.getLogger(lyso.__name__)
    lg.addHandler(_Capture())
    lg.setLevel(logging.DEBUG)
    lg.propagate = False


# ---- generic view of the instance state (no attribute names) ----------------------------------------

_PLAIN_LOCKS = (type(threading.Lock()), type(threading.RLock()))
ATOM, WASTE, LOCK, METHOD, SEQ, DICT, SET, OBJ = range(1, 9)
_KINDS = {}


def _kind(v):
    """How the harness treats a value found in the instance state, decided by its type."""
    t = type(v)
    k = _KINDS.get(t)
    if k is None:
        if issubclass(t, _RealWaste):
            k = WASTE
        elif issubclass(t, (sched.CoopLock,) + _PLAIN_LOCKS):
            k = LOCK
        elif issubclass(t, types.MethodType):
            k = METHOD
        elif issubclass(t, (list, tuple, collections.deque)):
            k = SEQ
        elif issubclass(t, dict):
            k = DICT
        elif issubclass(t, (set, frozenset)):
            k = SET
        elif issubclass(t, (int, float, complex, str, bytes, bytearray, type(None), enum.Enum, _dt.date, _dt.time,
                            _dt.timedelta, _dt.tzinfo, type, types.FunctionType, types.BuiltinFunctionType,
                            types.ModuleType, logging.Logger, type(Ellipsis), type(NotImplemented))):
            k = ATOM
        else:
            k = OBJ
        _KINDS[t] = k
    return k


_SLOTS = {}


def _fields(v):
    """Instance state of a plain object as (name, value) pairs (its __dict__ and slots)."""
    d = getattr(v, "__dict__", None)
    out = list(d.items()) if isinstance(d, dict) else []
    names = _SLOTS.get(type(v))
    if names is None:
        names = []
        for klass in type(v).__mro__:
            slots = klass.__dict__.get("__slots__", ())
            names += [n for n in ((slots,) if isinstance(slots, str) else slots) if n not in ("__dict__", "__weakref__")]
        _SLOTS[type(v)] = names = tuple(names)
    for name in names:
        if hasattr(v, name):
            out.append((name, getattr(v, name)))
    return out


def wastes_in(obj):
    """Every Waste object held in the instance state of obj, in state order (attribute order, container order)."""
    found, seen = [], set()
    kinds = _KINDS

    def walk(v, k):
        if id(v) in seen:
            return
        seen.add(id(v))
        if k == SEQ:
            it = v
        elif k == DICT:
            it = v.values()
            for x in v:  # keys are almost always atoms
                kx = kinds.get(type(x)) or _kind(x)
                if kx >= SEQ:
                    walk(x, kx)
        elif k == SET:
            it = sorted(v, key=repr)
        else:
            it = [x for _n, x in _fields(v)]
        for x in it:
            kx = kinds.get(type(x)) or _kind(x)
            if kx == WASTE:
                if id(x) not in seen:
                    seen.add(id(x))
                    found.append(x)
            elif kx >= SEQ:
                walk(x, kx)

    walk(obj, OBJ)
    return found


def install_locks_deep(obj):
    """What sched.install_locks does for the attributes of obj, for its whole instance state (private helper objects
    and containers included): locks are found by type wherever they are kept. Returns the labels of the replaced locks."""
    out, seen = [], set()
    kinds = _KINDS

    def coop(v, label):
        out.append(label)
        return sched.CoopLock(not isinstance(v, _PLAIN_LOCKS[0]), label)

    def walk(v, k, label):
        if id(v) in seen:
            return
        seen.add(id(v))
        if k == OBJ:
            items = _fields(v)
        elif k == DICT:
            items = list(v.items())
        elif k == SEQ:
            items = list(enumerate(v))
        else:
            items = [(None, x) for x in v]
        for name, x in items:
            kx = kinds.get(type(x)) or _kind(x)
            if kx == LOCK:
                if not isinstance(x, _PLAIN_LOCKS):
                    continue  # already a CoopLock
                if k == OBJ:
                    new = coop(x, f"{label}.{name}")
                    if name in (getattr(v, "__dict__", None) or ()):
                        v.__dict__[name] = new
                    else:
                        object.__setattr__(v, name, new)  # slot
                elif k == DICT or isinstance(v, (list, collections.deque)):
                    v[name] = coop(x, f"{label}[{name!r}]")
            elif kx >= SEQ:
                walk(x, kx, f"{label}.{name}" if k == OBJ else f"{label}[{name!r}]")

    walk(obj, OBJ, type(obj).__name__)
    return out


def locks_in(obj):
    """[(label, CoopLock)] in the instance state of obj."""
    out, seen = [], set()

    def walk(v, k, label):
        if id(v) in seen:
            return
        seen.add(id(v))
        if k == OBJ:
            items = _fields(v)
        elif k == DICT:
            items = list(v.items())
        else:
            items = [(None, x) for x in v]
        for name, x in items:
            kx = _kind(x)
            sub = f"{label}.{name}" if label and name is not None else (str(name) if name is not None else label)
            if kx == LOCK:
                if isinstance(x, sched.CoopLock):
                    out.append((sub, x))
            elif kx >= SEQ:
                walk(x, kx, sub)

    walk(obj, OBJ, "")
    return out


def copy_state(src, dst, remap, extras=()):
    """Make the instance state of dst a value copy of that of src (same class). Containers and private helper objects
    are copied recursively, bound methods are re-bound (`remap`: id(old owner) -> new owner; src -> dst is implied),
    locks are re-created by type (states are only cloned between calls: nothing is held), Waste items, callables and
    other atoms are shared. `extras`: harness-side objects that belong to the same state (the caller-owned constructor
    arguments): copied with the same memo - whatever the instance shares with them by identity stays shared in the
    copy -; their copies are returned."""
    memo = {id(src): dst}
    memo.update(remap)
    kinds = _KINDS

    def dup(v, k):
        new = memo.get(id(v))
        if new is not None:
            return new
        if k == DICT:
            if isinstance(v, collections.defaultdict):
                new = collections.defaultdict(v.default_factory)
            else:
                new = type(v)() if type(v) in (dict, collections.OrderedDict) else {}
            memo[id(v)] = new
            for key, x in v.items():
                kk = kinds.get(type(key)) or _kind(key)
                kx = kinds.get(type(x)) or _kind(x)
                new[key if kk <= WASTE else dup(key, kk)] = x if kx <= WASTE else dup(x, kx)
            return new
        if k == SEQ:
            if isinstance(v, list):
                new = memo[id(v)] = []
                for x in v:
                    kx = kinds.get(type(x)) or _kind(x)
                    new.append(x if kx <= WASTE else dup(x, kx))
                return new
            if isinstance(v, collections.deque):
                new = memo[id(v)] = collections.deque(maxlen=v.maxlen)
                new.extend(dup(x, _kind(x)) for x in v)
                return new
            items = [dup(x, _kind(x)) for x in v]
            new = type(v)(*items) if hasattr(v, "_fields") else tuple(items)
        elif k == METHOD:
            owner = v.__self__
            return types.MethodType(v.__func__, dup(owner, _kind(owner)))
        elif k == LOCK:
            new = sched.CoopLock(v.reentrant, v.name) if isinstance(v, sched.CoopLock) else type(v)()
        elif k == SET:
            new = type(v)(dup(x, _kind(x)) for x in v)
        elif k == OBJ:
            f = _fields(v)
            if not f or callable(v):
                return v  # opaque value without instance state (or a callable object): shared
            new = memo[id(v)] = object.__new__(type(v))
            own = getattr(v, "__dict__", None) or ()
            for name, x in f:
                val = dup(x, _kind(x))
                if name in own:
                    new.__dict__[name] = val
                else:
                    object.__setattr__(new, name, val)  # slot
            return new
        else:
            return v
        memo[id(v)] = new
        return new

    state = {}
    for name, val in vars(src).items():
        k = kinds.get(type(val)) or _kind(val)
        state[name] = val if k <= WASTE else dup(val, k)
    vars(dst).clear()
    vars(dst).update(state)
    return [dup(x, kinds.get(type(x)) or _kind(x)) for x in extras]


# ---- item identity -------------------------------------------------------------------------------

def ident(w):
    """(id, behaviour) of a waste item, whichever API built it."""
    c = w.content
    if isinstance(c, dict):
        if "id" in c:
            return c["id"], c["beh"]
        cx = c.get("context")
        if isinstance(cx, dict):
            return cx["id"], cx["beh"]
        if isinstance(cx, str):
            m = _CTX.search(cx)
            return int(m.group(1)), m.group(2)
    raise common.HarnessError(f"unidentifiable waste item {w!r}")


class Args:
    """The mutable constructor arguments as a caller owns them: ONE `digesters` dict object (the only container among
    the constructor's parameters) that any number of lysosomes can be built from. Its harness digesters report to the
    box whose public call is under judgement (`current`)."""

    def __init__(self, mode):
        self.current = None
        self.digesters = {WasteType[t]: self._digester for t in CUSTOM_TYPES[mode]}

    def _digester(self, w):
        return self.current._answer(w, False)


class Box:
    """One lysosome under test plus the harness-side observation logs. `args`: build it from these caller-owned argument
    objects (the same objects another box was built from) instead of fresh ones; `born='second'`: the caller first
    built another Lysosome (own on_toxic callback) from the very same argument objects and let go of it."""

    def __init__(self, cap, thr, ret_min, mode="custom", silent=True, first_id=1, clone_of=None, args=None, born="first"):
        self.cap, self.thr, self.ret_min, self.mode, self.silent = cap, thr, ret_min, mode, silent
        self.first_id = first_id
        self.strays = []     # ids of sensitive items that were handed to ANOTHER instance's on_toxic callback
        self.siblings = 0    # further instances built next to this one so far
        self.dlog = []       # (id, path, 'ok'|'odd'|'raise'|'raise_anon', who, nested) in processing order
        self.log = []        # module-logger messages
        self.running = {}    # thread (None = sequential) -> path label of the public call it is executing
        self.override = None  # path label while a re-entering digester is inside its nested ingest
        self.nested = 0
        self.toxic_calls = {}
        self.types = {}      # id -> waste type name
        self.created = {}    # id -> created_at
        self.next_id = first_id
        self.custom = CUSTOM_TYPES[mode]
        self.daemon = None
        if clone_of is not None:
            # same lysosome state by value, its callbacks re-bound to this box (no constructor involved)
            self.lys = object.__new__(type(clone_of.lys))
            (self.args,) = copy_state(clone_of.lys, self.lys, {id(clone_of): self}, (clone_of.args,))
            return
        if args is None:
            args = Args(mode)
            args.current = self
        self.args = args
        if born == "second":
            self._construct(self._other_toxic)
        self.lys = self._construct(self._on_toxic)
        install_locks_deep(self.lys)

    def _construct(self, on_toxic):
        lys = Lysosome(max_queue_size=self.cap, auto_digest_threshold=self.thr, retention_hours=self.ret_min / 60.0,
                       digesters=self.args.digesters or None, on_toxic=on_toxic if self.mode == "custom" else None,
                       silent=self.silent)
        if self.mode == "partial":
            lys.on_toxic = on_toxic  # public attribute, set after construction
        return lys

    def observed(self, i):
        """Does the harness see item i being processed (its type has a harness digester / toxic callback)?"""
        t = self.types[i]
        return self.mode != "builtin" if t == TOXIC else t in self.custom

    def beh_of(self, tname, beh):
        """Behaviour tag actually carried by an item: meaningless for types the library digests itself."""
        seen = self.mode != "builtin" if tname == TOXIC else tname in self.custom
        return beh if seen else "builtin"

    def _who(self):
        s = sched.ACTIVE
        return s.current() if s is not None else None

    def _path(self):
        return self.override or self.running.get(self._who(), "other")

    def _reenter(self):
        """A digester / toxic callback that hands a new (well-behaved) item to the same lysosome."""
        j = self.new_id("FAILED_OPERATION")
        saved = self.override
        self.override = "emergency" if self.lys.get_queue_status()["size"] >= self.cap else "auto-digest"
        self.nested += 1
        try:
            self.lys.ingest(_RealWaste(WasteType.FAILED_OPERATION, {"id": j, "beh": self.beh_of("FAILED_OPERATION", "empty")},
                                       "nested", self.created[j]))
        finally:
            self.nested -= 1
            self.override = saved

    def _answer(self, w, toxic):
        i, beh = ident(w)
        p, who, nested = self._path(), self._who(), self.nested
        if toxic:
            self.toxic_calls[i] = self.toxic_calls.get(i, 0) + 1
        if beh == "raise_assert":
            self.dlog.append((i, p, "raise_anon", who, nested))
            assert False
        if beh in RAISES:
            self.dlog.append((i, p, "raise" if beh == "raise" else "raise_anon", who, nested))
            raise RAISES[beh](i)
        self.dlog.append((i, p, "odd" if beh == "odd" else "ok", who, nested))
        if beh == "reenter":
            self._reenter()
            beh = "empty"
        return RETURNS[beh](i)

    def _on_toxic(self, w):
        return self._answer(w, True)

    def _other_toxic(self, w):
        self.strays.append(ident(w)[0])

    # -- operations -----------------------------------------------------------------
    def new_id(self, tname, created=None):
        i = self.next_id
        self.next_id += 1
        self.types[i] = tname
        self.created[i] = created or vclock.SWITCH.now()
        return i

    def apply(self, op, ids=None):
        """Run one operation on the real object. `ids` pre-allocates the item id (engine C)."""
        kind = op[0]
        lys = self.lys
        if kind == "ingest":
            i = ids if ids is not None else self.new_id(op[1])
            content = {"id": i, "beh": self.beh_of(op[1], op[2])}
            if op[1] == TOXIC:
                content["secret"] = f"SECRET{i}"
            return lys.ingest(_RealWaste(WasteType[op[1]], content, "h", self.created[i]))
        if kind == "ingest_error":
            i = ids if ids is not None else self.new_id("FAILED_OPERATION")
            return lys.ingest_error(ValueError(f"e{i}"), source="h",
                                    context={"id": i, "beh": self.beh_of("FAILED_OPERATION", op[1])})
        if kind == "ingest_sensitive":
            i = ids if ids is not None else self.new_id(TOXIC)
            return lys.ingest_sensitive({"id": i, "beh": self.beh_of(TOXIC, op[1]), "secret": f"SECRET{i}"}, source="h")
        if kind == "daemon_prune":
            # op = ("daemon_prune", behaviour, forced): forced -> force=True on a healthy context, else a context
            # that is critical by the documented rule (fill >= toxicity_threshold)
            i = ids if ids is not None else self.new_id("EXPIRED_CACHE")
            if self.daemon is None:
                self.daemon = apd.AutophagyDaemon(histone_store=HistoneStore(silent=True), lysosome=lys,
                                                  summarizer=lambda s: "summary", min_tokens_for_pruning=0,
                                                  silent=self.silent)
            text = f"id={i} beh={self.beh_of('EXPIRED_CACHE', op[1])} " + "Error: x\n" * 20
            out = self.daemon.check_and_prune(text, 100, force=True) if op[2] else self.daemon.check_and_prune(text, 40)
            if out[1] is None:
                raise common.HarnessError(f"daemon did not prune for {op}")
            return out
        if kind == "digest":
            return lys.digest(op[1]) if op[1] is not None else lys.digest()
        if kind == "autophagy":
            return lys.autophagy()
        if kind == "clear_bin":
            return lys.clear_recycling_bin()
        raise AssertionError(op)

    def queued(self):
        """The Waste objects still held by the lysosome, oldest first (generic walk over its instance state)."""
        return wastes_in(self.lys)

    def qids(self):
        return [ident(w)[0] for w in self.queued()]

    def expired(self, i, now):
        return now - self.created[i] >= _dt.timedelta(minutes=self.ret_min)


def decoy_activity(box, first_id=1001):
    """A second lysosome with the same options (separate argument objects) in the same process: must start empty
    whatever the first one has been through, and using it must not touch the first one. Returns (violations about the
    decoy itself, the decoy box)."""
    v = []
    d = Box(box.cap, box.thr, box.ret_min, box.mode, box.silent, first_id=first_id)
    st0 = d.lys.get_statistics()
    if (st0["queue_size"], st0["total_ingested"], st0["total_digested"], st0["recycling_bin_size"]) != (0, 0, 0, 0) \
            or d.lys.get_recycled() or d.lys.get_queue_status()["size"]:
        v.append(("second-instance-not-fresh", f"a freshly constructed Lysosome reports {st0}, recycled "
                                               f"{d.lys.get_recycled()!r}"))
    d.running[None] = "decoy"
    _Capture.sink = d.log
    try:
        d.apply(("ingest", "MISFOLDED_PROTEIN", "recycle"))
        d.apply(("ingest_sensitive", "ok"))
        d.apply(("ingest_error", "raise"))
        d.lys.digest()
        d.apply(("ingest", "ORPHANED_RESOURCE", "empty"))
        d.lys.autophagy()
    finally:
        _Capture.sink = None
    foreign = [i for i in d.qids() if i < first_id] + [e[0] for e in d.dlog if e[0] < first_id]
    if foreign or d.lys.get_statistics()["total_ingested"] != 4:
        v.append(("second-instance-sees-first", f"decoy instance holds/processed items {foreign} of the first instance, "
                                                f"statistics {d.lys.get_statistics()}"))
    return v, d


# what a further instance next to the first one is put through, judged by the normal oracle (sensitive items first, so
# that they take whichever path the configuration reaches first: emergency, auto-digest or digest)
SECOND_OPS = (("ingest_sensitive", "ok"), ("ingest", "MISFOLDED_PROTEIN", "recycle"), ("ingest_error", "raise"),
              ("digest", None), ("ingest_sensitive", "ok"), ("digest", 1))
# ... and the first instance afterwards (ends with an empty queue)
FOLLOW_UP = (("ingest_sensitive", "ok"), ("digest", None))


ISOLATION_KEYS = ("second-instance", "callback-of-other-instance", "queue-foreign-item", "other-instance-callback")


def summary(box):
    lys = box.lys
    return (repr(sorted(lys.get_statistics().items())), len(lys.get_recycled()), lys.get_queue_status()["size"])


def reported_ids(texts):
    out = set()
    for t in texts:
        out.update(int(m) for m in _BOOM.findall(str(t)))
    return out


def anonymous_reports(texts):
    """Failure reports (DigestResult.errors entries / logger messages) that do not name an item."""
    return sum(1 for t in texts if not _BOOM.search(str(t)))


def account(box, candidates, remaining, dlog, reports, expired_ok, at_capacity, label):
    """Conservation: every id in `candidates` (queued before / ingested by the calls under judgement)
    is in exactly one class. Returns (violations, classes, tally): tally counts what the counters and the
    anonymous failure reports have to cover (see `tally_check`)."""
    v = []
    cls = {"queued": 0, "digested": 0, "error-reported": 0, "emergency-dropped": 0, "expired": 0,
           "digested-or-reported": 0, "digested-or-dropped": 0}
    # ok: digester returned a legal value; odd: returned a truthy non-dict (the library may count it or report it);
    # builtin: left the queue through a library digester the harness cannot see (must be counted); flex: same at
    # capacity (counted or emergency-dropped); need_anon: raised without a message outside the emergency path
    tally = {"ok": 0, "odd": 0, "odd_ne": 0, "builtin": 0, "flex": 0, "need_anon": 0, "anon_path": None,
             "top_ok": 0, "top_odd": 0}
    inv = {}
    for i, p, res, _w, nested in dlog:
        inv.setdefault(i, []).append((p, res, nested))
    rem = list(remaining)
    for i in set(rem):
        if rem.count(i) > 1:
            v.append((f"queue-duplicate-item:{label}", f"item {i} is queued {rem.count(i)} times"))
        if i not in candidates:
            v.append((f"queue-foreign-item:{label}", f"item {i} is queued but was neither queued before nor ingested now"))
    for i in inv:
        if i not in candidates:
            v.append((f"digester-on-unknown-item:{label}", f"item {i} processed ({inv[i]}) but it was not queued"))
    for i in sorted(candidates):
        runs = inv.get(i, [])
        toxic = box.types[i] == TOXIC
        if len(runs) > 1:
            v.append((f"{'sensitive-callback-twice' if toxic else 'digester-ran-twice'}:{label}",
                      f"item {i} ({box.types[i]}) was processed {len(runs)} times: {runs}"))
            continue
        if i in rem:
            if runs:
                v.append((f"digested-but-still-queued:{runs[0][0]}", f"item {i} ({box.types[i]}) was processed "
                          f"({runs[0]}) and is still queued: it is in two classes"))
            else:
                cls["queued"] += 1
            continue
        if runs:
            p, res, nested = runs[0]
            if res == "ok":
                cls["digested"] += 1
                tally["ok"] += 1
                tally["top_ok"] += not nested
                if i in reports:
                    v.append((f"error-reported-for-digested-item:{p}", f"item {i} was digested normally and also "
                                                                       f"reported as a digestion error"))
            elif res == "odd":
                cls["digested-or-reported"] += 1
                tally["odd"] += 1
                tally["odd_ne"] += p != "emergency"
                tally["top_odd"] += not nested
            elif res == "raise_anon":
                if p == "emergency":
                    cls["emergency-dropped"] += 1
                else:
                    cls["error-reported"] += 1  # provided an anonymous report exists: tally_check
                    tally["need_anon"] += 1
                    tally["anon_path"] = tally["anon_path"] or p
            elif i in reports:
                cls["error-reported" if p != "emergency" else "emergency-dropped"] += 1
            elif p == "emergency":
                cls["emergency-dropped"] += 1  # weaker reading: dropped by the emergency path, report optional
            else:
                v.append((f"unreported-digestion-error:{p}",
                          f"item {i} ({box.types[i]}): its digester raised on the {p} path, the item left the queue, "
                          f"is not counted as digested and the failure appears in no returned DigestResult and in no "
                          f"log warning: the item is in none of the classes"))
            continue
        # left the queue without being processed by a harness digester
        if i in expired_ok:
            cls["expired"] += 1
        elif not box.observed(i):
            if at_capacity:
                cls["digested-or-dropped"] += 1
                tally["flex"] += 1
            else:
                cls["digested"] += 1
                tally["builtin"] += 1
        elif toxic:
            v.append((f"sensitive-disposed-without-callback:{label}", f"sensitive item {i} left the queue without "
                                                                      f"reaching on_toxic"))
        elif at_capacity:
            cls["emergency-dropped"] += 1
        else:
            v.append((f"item-lost:{label}", f"item {i} ({box.types[i]}) left the queue without being digested, "
                                            f"reported, emergency-dropped or expired"))
    return v, cls, tally


def tally_check(tally, d_dig, n_anon, paths, n_raise):
    """`total_digested` must have grown by the number of items in class 'digested'; items whose digester failed
    without naming itself need as many anonymous failure reports (weakest matching)."""
    v = []
    lo = tally["ok"] + tally["builtin"]
    hi = lo + tally["odd"] + tally["flex"]
    if not lo <= d_dig <= hi:
        v.append((f"digested-count-mismatch:{paths}", f"total_digested grew by {d_dig}, "
                  f"{lo if lo == hi else f'{lo}..{hi}'} items were digested ({tally['ok']} harness digesters returned "
                  f"normally, {tally['builtin']} left through library digesters, {n_raise} raised)"))
    else:
        need = tally["need_anon"] + max(0, tally["odd_ne"] - (d_dig - lo))
        if n_anon < need:
            v.append((f"unreported-digestion-error:{tally['anon_path'] or 'digest'}",
                      f"{need} items failed to digest (digester raised without a message / returned a non-dict and was "
                      f"not counted) but only {n_anon} failure reports that name no item appear in the returned "
                      f"DigestResults and log warnings"))
    return v


# =====================================================================================================
# Engine A
# =====================================================================================================

FULL = ([("ingest", t, b) for t in NONTOXIC for b in ("recycle", "empty", "raise")]
        + [("ingest", "MISFOLDED_PROTEIN", "none"), ("ingest", "EXPIRED_CACHE", "zero"), ("ingest", "FAILED_OPERATION", "odd"),
           ("ingest", "ORPHANED_RESOURCE", "raise_empty"), ("ingest", "MISFOLDED_PROTEIN", "raise_assert"),
           ("ingest", "EXPIRED_CACHE", "raise_stop"), ("ingest", "FAILED_OPERATION", "raise_key"),
           ("ingest", "ORPHANED_RESOURCE", "reenter")]
        + [("ingest", TOXIC, b) for b in ("ok", "raise", "raise_empty")]
        + [("ingest_error", b) for b in ("recycle", "empty", "raise", "raise_empty")]
        + [("ingest_sensitive", b) for b in ("ok", "raise", "raise_empty", "reenter")]
        + [("daemon_prune", "empty", True), ("daemon_prune", "raise", False)])
MID = [("ingest", "MISFOLDED_PROTEIN", "recycle"), ("ingest", "EXPIRED_CACHE", "empty"),
       ("ingest", "ORPHANED_RESOURCE", "raise"), ("ingest_error", "raise"), ("ingest_sensitive", "ok"),
       ("ingest_sensitive", "raise"), ("daemon_prune", "empty", True),
       ("ingest", "MISFOLDED_PROTEIN", "none"), ("ingest", "FAILED_OPERATION", "odd"), ("ingest_error", "raise_empty"),
       ("ingest", "ORPHANED_RESOURCE", "reenter")]
SMALL = [("ingest", "MISFOLDED_PROTEIN", "recycle"), ("ingest_error", "raise"), ("ingest_sensitive", "ok"),
         ("ingest_sensitive", "raise")]
TINY = [("ingest", "MISFOLDED_PROTEIN", "recycle"), ("ingest_error", "raise"), ("ingest_sensitive", "ok")]
OTHER = [("digest", None), ("digest", 0), ("digest", 1), ("digest", 2), ("digest", 9), ("autophagy",), ("advance", 30),
         ("advance", 61), ("clear_bin",), ("decoy",)]
LEVELS = {"full": FULL, "mid": MID, "small": SMALL, "tiny": TINY}
DEPTH = {"quick": 7, "thorough": 10}


def _reach(cap, thr):
    return cap if thr > cap else min(cap, max(0, thr - 1))  # longest queue a correct lysosome can hold


def _level(cap, thr, tier):
    reach = _reach(cap, thr)
    if tier == "quick":
        return "full" if reach <= 1 else "mid" if reach <= 2 else "small" if reach <= 4 else "tiny"
    return "full" if reach <= 2 else "mid" if reach <= 3 else "small" if reach <= 4 else "tiny"


def alphabet(cap, thr, level, mode):
    """Ingesting operations of a configuration: behaviour tags of item types the library digests itself collapse
    (the harness has no say there); re-entering digesters only where the capacity path is unreachable."""
    probe_custom = CUSTOM_TYPES[mode]
    out = []
    for op in LEVELS[level]:
        kind = op[0]
        tname = op[1] if kind == "ingest" else "FAILED_OPERATION" if kind == "ingest_error" else \
            TOXIC if kind == "ingest_sensitive" else "EXPIRED_CACHE"
        seen = mode != "builtin" if tname == TOXIC else tname in probe_custom
        beh = op[2] if kind == "ingest" else op[1]
        if not seen:
            beh = "builtin"
        if beh == "reenter" and thr > cap and not REENTER_AT_CAPACITY:
            continue
        new = (kind, tname, beh) if kind == "ingest" else (kind, beh) + tuple(op[2:])
        if new not in out:
            out.append(new)
    return out


class State:
    __slots__ = ("cfg", "box", "clock", "last", "queued")  # queued: Waste list seen at the end of the last step


class Model:
    def __init__(self, tier):
        self.tier = tier
        self._ops = {}
        self._ref = {}

    def roots(self):
        """[max_queue_size, auto_digest_threshold, retention minutes, alphabet level, digester registry, silent].
        Every configuration runs with the default-like options (custom registry, silent) at the tier's alphabet level
        and is crossed with the other registries and silent=False at the quick-tier level; configurations that only
        repeat another one's reachable queue lengths (threshold 3 below a larger capacity) and the long-queue ones get
        the single combined variant (partial registry, late on_toxic, silent=False), the latter on the smallest alphabet."""
        base = []
        for cap in (2, 3, 4, 8):
            for thr in (1, 2, 3, 8):
                base.append((cap, thr, 60))
        base += [(2, 3, 30), (3, 2, 30), (2, 3, 0), (3, 2, 0)]
        if self.tier == "thorough":
            base += [(5, 4, 60), (4, 5, 60), (6, 8, 60)]
        depth = DEPTH[self.tier]

        def lvl(cap, thr, ret, tier):
            if (cap, thr) in ((5, 4), (4, 5)):
                return "small"
            level = _level(cap, thr, tier)
            return "mid" if ret != 60 and level != "full" else level

        out = []
        for cap, thr, ret in base:
            reach = _reach(cap, thr)
            out.append([cap, thr, ret, lvl(cap, thr, ret, self.tier), "custom", True])
            if reach >= depth:
                continue  # no trigger is reachable within the depth: nothing for the options to influence
            if reach >= 4:
                out.append([cap, thr, ret, "tiny", "partial", False])
            elif thr == 3 and cap > 3:
                out.append([cap, thr, ret, lvl(cap, thr, ret, "quick"), "partial", False])
            else:
                for mode, silent in (("custom", False), ("partial", False), ("builtin", True), ("builtin", False)):
                    out.append([cap, thr, ret, lvl(cap, thr, ret, "quick"), mode, silent])
                # construction order: the instance under test is the SECOND one built from the caller's digesters dict
                # (which overrides two types only, the built-in digesters get filled in); what this can influence is
                # who digests an item and whose callback it reaches: one item of each kind (library-digested, harness-
                # digested and raising, sensitive with a returning / raising callback) on every path
                out.append([cap, thr, ret, "small", "partial", True, "second"])
        return out

    def build(self, root):
        st = State()
        st.cfg = tuple(root)
        st.clock = vclock.VClock()
        vclock.use(st.clock)
        st.box = Box(root[0], root[1], root[2], root[4], root[5], born=root[6] if len(root) > 6 else "first")
        st.last = ("init",)
        st.queued = None
        return st

    def clone(self, st):
        c = State()
        c.cfg = st.cfg
        c.clock = vclock.VClock(start=st.clock.now())
        vclock.use(c.clock)
        o = st.box
        b = Box(st.cfg[0], st.cfg[1], st.cfg[2], st.cfg[4], st.cfg[5], clone_of=o)  # whole instance state by value
        b.toxic_calls = dict(o.toxic_calls)
        b.types = dict(o.types)
        b.created = dict(o.created)
        b.next_id = o.next_id
        b.siblings = o.siblings
        c.box = b
        c.last = st.last
        c.queued = st.queued  # the Waste objects are shared between a state and its copies, their order is part of the copy
        return c

    def ops(self, st):
        key = st.cfg
        if key not in self._ops:
            self._ops[key] = alphabet(key[0], key[1], key[3], key[4]) + OTHER
        return self._ops[key]

    def canon(self, st):
        now = st.clock.now()
        ret = st.cfg[2]
        q = []
        for w in st.queued if st.queued is not None else st.box.queued():
            i, beh = ident(w)
            age = int((now - w.created_at).total_seconds() // 60)
            q.append((w.waste_type.name, beh, min(age, ret)))
        return tuple(q)

    def observe(self, st):
        return st.last

    def second_instances(self, st):
        """Operation 'decoy': further Lysosomes with the same options next to the state's own (the 'first').
        1. one built from separate argument objects: starts empty, sees nothing of the first (decoy_activity);
        2. one built from the SAME caller-owned argument objects as the first (its digesters dict, which may override
           only some types), with its own on_toxic: judged call by call by the normal oracle (its items reach ITS
           callback exactly once, its counters, its recycling bin), and its observations must equal those of a lone
           instance with the same options (the caller's dict is no channel between instances);
        3. the first instance afterwards, judged by the normal oracle, while the others must not notice."""
        box = st.box
        v = []
        del box.dlog[:]
        del box.strays[:]
        box.running[None] = "other-instance"
        others = []
        box.siblings += 1
        try:
            dv, decoy = decoy_activity(box, 1000 * box.siblings + 1)
            v += dv
            others.append(decoy)
        except sched.HangDetected as e:
            v.append(("hang:decoy", f"a call on a second, freshly built Lysosome would never return: {e}"))
        except common.HarnessError:
            raise
        except Exception as e:  # noqa: BLE001
            v.append((f"raises:decoy:{type(e).__name__}", f"activity on a second, freshly built Lysosome raised "
                                                          f"{type(e).__name__}: {e}"))
        finally:
            _Capture.sink = None
        if box.dlog or box.strays:
            v.append(("second-instance:callback-of-other-instance", f"while a second Lysosome (separate arguments) was used, "
                      f"the first one's callbacks were invoked: {[(e[0], e[1]) for e in box.dlog] + box.strays}"))
        if box.args.digesters and not v:
            key = st.cfg[:6]
            if key not in self._ref:
                lone = Box(box.cap, box.thr, box.ret_min, box.mode, box.silent, first_id=900001)
                trace, lv = _activity(self, st, lone, SECOND_OPS, [], "lone", "a lone instance")
                self._ref[key] = None if lv else (trace, summary(lone))
            box.siblings += 1
            who = "a second Lysosome built from the same digesters dict object as the first (own on_toxic)"
            try:
                sib = Box(box.cap, box.thr, box.ret_min, box.mode, box.silent, first_id=1000 * box.siblings + 1, args=box.args)
            except Exception as e:  # noqa: BLE001
                v.append((f"raises:constructor:{type(e).__name__}", f"{who}: the constructor raised {type(e).__name__}: {e}"))
            else:
                trace, sv = _activity(self, st, sib, SECOND_OPS, [box], "same-arguments-instance", who)
                v += sv
                others.append(sib)
                if not sv and self._ref[key] is not None and (trace, summary(sib)) != self._ref[key]:
                    v.append(("second-instance-differs-from-lone-instance",
                              f"{who} was put through {list(SECOND_OPS)}: observations {(trace, summary(sib))} differ from those "
                              f"of an instance built from its own arguments {self._ref[key]}"))
        trace = ()
        if not v:
            trace, fv = _activity(self, st, box, FOLLOW_UP, others, "first-after-second",
                                   "the first instance, after others were built and used,")
            v += fv
        st.queued = None
        st.last = ("decoy", tuple(trace))
        return v

    def step(self, st, op):
        _setup()
        vclock.use(st.clock)
        known = st.queued  # what the generic walk found at the end of the previous step: no library code ran since
        st.queued = None
        kind = op[0]
        if kind == "advance":
            st.clock.advance(op[1] * 60)
            st.last = ("advance",)
            st.queued = known
            return []
        if kind == "decoy":
            return self.second_instances(st)
        box = st.box
        lys = box.lys
        cap, thr = box.cap, box.thr
        now = st.clock.now()
        qb = [ident(w)[0] for w in known] if known is not None else box.qids()
        foreign = [i for i in qb if i not in box.types]
        if foreign:
            return [("queue-foreign-item:before-call", f"items {foreign} are queued in this lysosome but were never ingested "
                                                       f"into it (state shared with another instance?)")]
        sb = lys.get_statistics()
        del box.dlog[:]
        del box.log[:]
        del box.strays[:]
        _Capture.sink = box.log
        nid_before = box.next_id
        ingesting = kind in INGEST_KINDS
        at_capacity = ingesting and len(qb) >= cap
        # the role of whatever gets processed during this call follows from the call itself
        box.running[None] = ("emergency" if at_capacity else "auto-digest") if ingesting else kind
        v = []
        try:
            ret = box.apply(op)
        except sched.HangDetected as e:
            if ingesting:
                where = "auto-digest-threshold" if len(qb) + 1 >= thr and not at_capacity else \
                    "capacity" if at_capacity else "other"
                key = f"hang:ingest:{where}"
            else:
                key = f"hang:{kind}"
            return [(key, f"{kind}{tuple(op[1:])} with {len(qb)} queued (max_queue_size={cap}, auto_digest_threshold={thr}) "
                          f"would never return: {e}")]
        except common.HarnessError:
            raise
        except Exception as e:  # noqa: BLE001
            return [(f"raises:{'ingest' if ingesting else kind}:{type(e).__name__}",
                     f"{kind}{tuple(op[1:])} raised {type(e).__name__}: {e}")]
        finally:
            _Capture.sink = None
        new = list(range(nid_before, box.next_id))
        st.queued = box.queued()  # nothing touches the lysosome between here and canon()
        qa = [ident(w)[0] for w in st.queued]
        sa = lys.get_statistics()
        # bounded queue: the largest of the three views of its length (generic state walk, get_statistics,
        # get_queue_status) is judged
        sizes = {len(qa), sa["queue_size"], lys.get_queue_status()["size"]}
        if max(sizes) > cap:
            v.append((f"queue-over-capacity:{'ingest' if ingesting else kind}", f"{max(sizes)} items queued after "
                      f"{kind}{tuple(op[1:])}, max_queue_size={cap}"))
        # conservation
        texts = list(box.log)
        if isinstance(ret, DigestResult):
            texts += list(ret.errors)
        reports = reported_ids(texts)
        candidates = set(qb) | set(new)
        expired_ok = {i for i in candidates if kind == "autophagy" and box.expired(i, now)}
        label = "ingest" if ingesting else kind
        av, cls, tally = account(box, candidates, qa, box.dlog, reports, expired_ok, at_capacity, label)
        v += av
        n_ok = sum(1 for e in box.dlog if e[2] == "ok")
        n_raise = sum(1 for e in box.dlog if e[2] in ("raise", "raise_anon"))
        if kind == "autophagy":
            gone = [i for i in qb if i not in qa]
            fresh_gone = [i for i in gone if i not in expired_ok]
            if fresh_gone:
                v.append(("autophagy-removed-unexpired", f"items {fresh_gone} were younger than the retention period"))
            if ret != len(gone):
                v.append(("autophagy-count-mismatch", f"autophagy returned {ret!r}, {len(gone)} items left the queue"))
        # counters
        d_ing = sa["total_ingested"] - sb["total_ingested"]
        if d_ing != len(new):
            v.append((f"ingested-count-mismatch:{label}", f"total_ingested grew by {d_ing}, {len(new)} items ingested"))
        d_dig = sa["total_digested"] - sb["total_digested"]
        if not av:
            v += tally_check(tally, d_dig, anonymous_reports(texts),
                             "+".join(sorted({e[1] for e in box.dlog}) or ["none"]), n_raise)
        if isinstance(ret, DigestResult):
            # what this call itself disposed of: items processed by nested calls of re-entering digesters excluded,
            # items the library digested itself (no harness hook) may have gone either way
            lo = tally["top_ok"]
            hi = lo + tally["top_odd"] + tally["builtin"] + tally["flex"]
            if not (lo <= ret.disposed <= hi) or (not any(e[4] for e in box.dlog) and ret.disposed != d_dig):
                v.append(("disposed-count-mismatch", f"DigestResult.disposed={ret.disposed}, total_digested grew by {d_dig}, "
                                                     f"{n_ok} harness digesters returned normally ({n_raise} raised), "
                                                     f"{tally['builtin']} items left through library digesters"))
        # sensitive data
        if "SECRET" in repr(lys.get_recycled()):
            v.append(("sensitive-in-recycling-bin", f"get_recycled() = {lys.get_recycled()!r}"))
        if box.strays:
            v.append((f"sensitive-reached-other-instance-callback:{label}",
                      f"sensitive items {box.strays} ingested into this lysosome were handed to the on_toxic callback of "
                      f"another Lysosome (built earlier from the same argument objects)"))
        over = {i: n for i, n in box.toxic_calls.items() if n > 1}
        if over and not any(k.startswith("sensitive-callback-twice") for k, _ in v):
            v.append((f"sensitive-callback-twice:{label}", f"on_toxic calls per item: {over}"))
        st.last = (label, at_capacity, tuple(sorted((k, n) for k, n in cls.items() if n)), n_ok, n_raise,
                   isinstance(ret, DigestResult) and len(ret.errors), len(box.log))
        return v


def _activity(model, st, box, ops, others, tag, who):
    """Put `box` (an instance living next to the state's own) through `ops`, every call judged by the normal oracle;
    the instances in `others` must not notice. Returns (observations per call, violations)."""
    s = State()
    s.cfg, s.clock, s.box, s.last, s.queued = st.cfg, st.clock, box, ("init",), None
    v, trace = [], []
    keep = box.args.current
    box.args.current = box
    try:
        for n, sop in enumerate(ops):
            for o in others:
                del o.dlog[:]
                del o.strays[:]
            sv = model.step(s, sop)
            trace.append(s.last)
            v += [(f"{tag}:{k}", f"{who} after {list(ops[:n])}, its call {sop}: {w}") for k, w in sv]
            talk = [(e[0], e[1]) for o in others for e in o.dlog] + [i for o in others for i in o.strays]
            if talk:
                v.append((f"{tag}:callback-of-other-instance", f"{who} after {list(ops[:n])}: during its call {sop} the "
                          f"callbacks of ANOTHER instance were invoked for items {talk}"))
            if v:
                break
    finally:
        box.args.current = keep
    return trace, v


def _selfcheck(model):
    hist0 = (("ingest", "MISFOLDED_PROTEIN", "recycle"), ("advance", 30), ("ingest_sensitive", "ok"), ("digest", 1),
             ("ingest_error", "raise"), ("clear_bin",), ("advance", 61), ("autophagy",), ("ingest_sensitive", "raise"),
             ("decoy",))
    for root in ([8, 8, 60, "tiny", "custom", True], [3, 8, 60, "mid", "partial", False], [2, 8, 60, "full", "builtin", True],
                 [3, 2, 0, "full", "custom", False], [2, 3, 60, "mid", "partial", True, "second"]):
        hist = hist0  # behaviour tags of item types without a harness digester are ignored by Box.apply
        for n in range(len(hist) + 1):
            a = model.build(root)
            for op in hist[:n]:
                model.step(a, op)
            for op in model.ops(a):
                x = model.clone(a)
                y = model.build(root)
                for hop in hist[:n]:
                    model.step(y, hop)
                rx, ry = model.step(x, op), model.step(y, op)
                ox = (rx, model.canon(x), x.last, x.box.lys.get_statistics(), x.box.lys.get_recycled())
                oy = (ry, model.canon(y), y.last, y.box.lys.get_statistics(), y.box.lys.get_recycled())
                if ox != oy:
                    raise common.HarnessError(f"C13 clone/replay mismatch root={root} hist={hist[:n]} op={op}: {ox} vs {oy}")


# =====================================================================================================
# Engine C
# =====================================================================================================

I_OK = ("ingest", "MISFOLDED_PROTEIN", "recycle")
I_BAD = ("ingest", "FAILED_OPERATION", "raise")
I_SEC = ("ingest_sensitive", "ok")
D_ALL = ("digest", None)
D_ONE = ("digest", 1)
AUTO = ("autophagy",)
SIGMA = [I_OK, I_BAD, I_SEC, D_ALL, D_ONE, AUTO]

# (cap, thr, preload [(op, 'old'|'fresh')...], thread programs, silent). silent=False only adds scheduling points (the
# print branches) to the same code, so those harnesses explore a superset of the silent interleavings.
CURATED = {
    "T1-ingest3-vs-digest": (3, 8, [(I_OK, "fresh")], [[I_OK, I_BAD, I_SEC], [D_ALL, D_ONE, D_ALL]], True),
    "T2-ingest3-vs-ingest3-capacity": (3, 8, [(I_SEC, "fresh"), (I_BAD, "fresh")], [[I_OK, I_SEC, I_BAD], [I_BAD, I_OK, I_SEC]], False),
    "T3-threshold-ingests": (3, 2, [(I_BAD, "fresh")], [[I_OK, I_SEC], [I_BAD, I_OK]], False),
    "T4-threshold-vs-digest-autophagy": (3, 2, [(I_OK, "old")], [[I_SEC, I_BAD, I_OK], [AUTO, D_ALL]], True),
    "T5-autophagy-vs-digest-vs-ingest": (4, 8, [(I_OK, "old"), (I_SEC, "old"), (I_BAD, "fresh")], [[AUTO, I_OK, AUTO], [D_ONE, D_ALL]], False),
    "T6-capacity-vs-digest": (2, 8, [(I_SEC, "fresh"), (I_BAD, "fresh")], [[I_OK, I_OK, I_SEC], [D_ONE, D_ALL, AUTO]], False),
    "T7-threshold3": (4, 3, [(I_BAD, "fresh"), (I_SEC, "fresh")], [[I_OK, I_BAD, I_SEC], [I_SEC, D_ONE]], True),
}
QUICK_CURATED = ["T1-ingest3-vs-digest", "T3-threshold-ingests", "T4-threshold-vs-digest-autophagy", "T6-capacity-vs-digest"]
PAIR_CFG = {"P38": (3, 8, [(I_SEC, "old"), (I_BAD, "fresh"), (I_OK, "fresh")], True), "P32": (3, 2, [(I_BAD, "fresh")], False)}


def systematic(tier):
    """All unordered pairs of programs over SIGMA: length 1 (quick) / length <= 2 (thorough)."""
    progs = [[a] for a in SIGMA]
    if tier == "thorough":
        progs += [[a, b] for a in SIGMA for b in SIGMA]
    out = {}
    for cname, (cap, thr, pre, silent) in PAIR_CFG.items():
        for x in range(len(progs)):
            for y in range(x, len(progs)):
                out[f"{cname}:{x}x{y}"] = (cap, thr, pre, [progs[x], progs[y]], silent)
    return out


def harness_spec(name, tier_hint=None):
    if name in CURATED:
        return CURATED[name]
    for tier in ("quick", "thorough"):
        s = systematic(tier)
        if name in s:
            return s[name]
    raise common.HarnessError(f"unknown harness {name}")


def make_factory(spec):
    cap, thr, pre, threads, silent = spec
    # which mechanism an ingesting call can trigger follows from the configuration (capacity is only reachable when the
    # auto-digest threshold lies above it), the role of a digest / autophagy call from the call itself
    ingest_label = "emergency" if thr > cap else "auto-digest"

    def make():
        _setup()
        clock = vclock.VClock()
        vclock.use(clock)
        box = Box(cap, thr, 60, "custom", silent)
        log = []
        now = clock.now()
        # pre-load (sequentially, below every trigger) through the public ingest(); a call that does not come back
        # normally here is judged like one made by a thread
        pre_ids = []
        pre_error = []
        _Capture.sink = log
        for op, age in pre:
            created = now - _dt.timedelta(hours=2) if age == "old" else now
            tname = op[1] if op[0] == "ingest" else TOXIC
            i = box.new_id(tname, created)
            beh = op[2] if op[0] == "ingest" else op[1]
            content = {"id": i, "beh": beh}
            if tname == TOXIC:
                content["secret"] = f"SECRET{i}"
            pre_ids.append(i)
            try:
                box.lys.ingest(_RealWaste(WasteType[tname], content, "pre", created))
            except sched.HangDetected as e:
                pre_error.append(("hang:ingest:other", f"pre-loading ingest of item {i} would never return: {e}"))
                break
            except Exception as e:  # noqa: BLE001
                pre_error.append((f"raises:ingest:{type(e).__name__}", f"pre-loading ingest of item {i} raised "
                                                                      f"{type(e).__name__}: {e}"))
                break
        # item ids are allocated up front so that they do not depend on the schedule
        plan = []
        for t in threads:
            row = []
            for op in t:
                if op[0] in INGEST_KINDS:
                    tname = op[1] if op[0] == "ingest" else TOXIC if op[0] == "ingest_sensitive" else "FAILED_OPERATION"
                    row.append(box.new_id(tname, now))
                else:
                    row.append(None)
            plan.append(row)
        rets = [[None] * len(t) for t in threads]
        done = [[False] * len(t) for t in threads]
        cur = [None] * len(threads)
        over = []

        def body(tid):
            def run():
                for k, op in enumerate(threads[tid]):
                    cur[tid] = k
                    box.running[tid] = ingest_label if op[0] in INGEST_KINDS else op[0]
                    r = box.apply(op, ids=plan[tid][k])
                    if isinstance(r, DigestResult):
                        r = ("DigestResult", r.disposed, tuple(r.errors), r.success)
                    rets[tid][k] = r
                    done[tid][k] = True
                    n = len(box.queued())
                    if n > cap:
                        over.append((tid, k, n))
                return True
            return run

        def finish(ex):
            _Capture.sink = None
            return {"rets": rets, "done": done, "cur": cur, "over": over, "box": box, "pre": pre_ids, "plan": plan,
                    "log": list(log), "now": now, "pre_error": pre_error}

        return [body(i) for i in range(len(threads))], finish

    return make


def judge_factory(name, spec):
    cap, thr, pre, threads, _silent = spec

    def judge(ex, out):
        v = []
        box = out["box"]
        if out["pre_error"]:
            return [(k, f"{name}: {w}") for k, w in out["pre_error"]]
        if ex.deadlock:
            selfdead = [int(t) for t, (_l, held) in ex.deadlock["waiting"].items() if held == f"held by T{t}"]
            for t in selfdead:
                k = out["cur"][t]
                op = threads[t][k]
                if op[0] in INGEST_KINDS:
                    v.append(("hang:ingest:auto-digest-threshold", f"{name}: thread {t} op {k} {op} re-acquires the lock "
                              f"it already holds ({ex.deadlock}); the call never returns and every other thread blocks"))
                else:
                    v.append((f"hang:{op[0]}", f"{name}: thread {t} op {k} {op} self-deadlocks: {ex.deadlock}"))
            if not selfdead:
                v.append((f"deadlock:{name}", f"no thread enabled: {ex.deadlock}"))
            return v
        if ex.horizon:
            return [(f"livelock:{name}", "execution exceeded the step horizon")]
        for t, r in enumerate(ex.results):
            if r[0] != "ok":
                k = out["cur"][t]
                op = threads[t][k] if k is not None else None
                v.append((f"call-{r[0]}:{op[0] if op else '?'}", f"{name}: thread {t} ended with {r} in op {k} {op}"))
        if v:
            return v
        lys = box.lys
        n_end = max(len(box.queued()), lys.get_statistics()["queue_size"], lys.get_queue_status()["size"])
        if out["over"] or n_end > cap:
            v.append(("queue-over-capacity:schedule", f"{name}: queue length {out['over'] or n_end} > {cap}"))
        ingested = set(out["pre"]) | {i for row in out["plan"] for i in row if i is not None}
        reports = reported_ids(out["log"])
        removed_by_autophagy = 0
        for t, row in enumerate(out["rets"]):
            for k, r in enumerate(row):
                if isinstance(r, tuple) and r and r[0] == "DigestResult":
                    reports |= reported_ids(r[2])
                elif threads[t][k] == AUTO:
                    removed_by_autophagy += r
        old = {i for i in ingested if box.expired(i, out["now"])}
        qa = box.qids()
        processed = {e[0] for e in box.dlog}
        silently_gone = [i for i in ingested if i not in qa and i not in processed]
        expired_ok = set(x for x in silently_gone if x in old)
        av, cls, tally = account(box, ingested, qa, box.dlog, reports, expired_ok, False, "schedule")
        v += [(k, f"{name}: {w}") for k, w in av]
        if removed_by_autophagy != len(expired_ok) and not av:
            v.append(("autophagy-count-mismatch", f"{name}: autophagy calls returned {removed_by_autophagy} in total, "
                                                  f"{len(expired_ok)} expired items left the queue unprocessed"))
        st = lys.get_statistics()
        if not av:
            texts = list(out["log"]) + [t for row in out["rets"] for r in row
                                        if isinstance(r, tuple) and r and r[0] == "DigestResult" for t in r[2]]
            v += [(k, f"{name}: {w}") for k, w in tally_check(tally, st["total_digested"], anonymous_reports(texts), "schedule",
                                                            sum(1 for e in box.dlog if e[2] != "ok"))]
        if st["total_ingested"] != len(ingested):
            v.append(("ingested-count-mismatch:schedule", f"{name}: total_ingested={st['total_ingested']}, "
                                                          f"{len(ingested)} items ingested"))
        disposed = sum(r[1] for row in out["rets"] for r in row if isinstance(r, tuple) and r and r[0] == "DigestResult")
        n_ok_digest = sum(1 for e in box.dlog if e[2] == "ok" and e[1] == "digest")
        if disposed != n_ok_digest:
            v.append(("disposed-count-mismatch", f"{name}: DigestResults report {disposed} disposed, {n_ok_digest} digesters "
                                                 f"returned normally on the digest path"))
        if "SECRET" in repr(lys.get_recycled()):
            v.append(("sensitive-in-recycling-bin", f"{name}: get_recycled() = {lys.get_recycled()!r}"))
        return v

    return judge


def outcome_view(out):
    """Schedule outcome as plain data (for the distinct-outcome count and reproducibility checks)."""
    box = out["box"]
    return (tuple(tuple(r) for r in out["rets"]), tuple(box.qids()), tuple((e[0], e[1], e[2]) for e in box.dlog),
            box.lys.get_statistics()["total_digested"], tuple(sorted(reported_ids(out["log"]))))


def _wrapped(name, spec):
    make0 = make_factory(spec)
    judge0 = judge_factory(name, spec)

    # the explorer repr()s the outcome: hand it plain data, keep the live box for the judge
    def make():
        bodies, finish = make0()

        def fin(ex):
            out = finish(ex)
            return _Out(outcome_view(out), out)
        return bodies, fin

    def judge(ex, o):
        return judge0(ex, o.full)

    return make, judge


KW = dict(trace_files=(LYSO_FILE,))


class _Acc:
    """Mergeable record of a set of schedule executions of one harness."""

    def __init__(self):
        self.executions = 0
        self.outcomes = {}
        self.violations = []
        self.max_points = 0
        self.max_preemptions = 0

    def add(self, judge, ex, outcome):
        self.executions += 1
        k = repr(outcome)
        self.outcomes[k] = self.outcomes.get(k, 0) + 1
        self.max_points = max(self.max_points, len(ex.points))
        self.max_preemptions = max(self.max_preemptions, ex.preemptions())
        for key, what in judge(ex, outcome):
            if sum(1 for v in self.violations if v[0] == key) < 3:
                self.violations.append((key, what, {"schedule": list(ex.choices), "threads": list(ex.thread_order)}))

    def plain(self):
        return (self.executions, self.outcomes, self.violations, self.max_points, self.max_preemptions)


def _job_whole(job):
    """All schedules of one (small) harness up to the bound, in this process."""
    name, bound = job
    make, judge = _wrapped(name, harness_spec(name))
    acc = _Acc()
    sched.dfs(make, [()], bound, lambda prefix, ex, out: acc.add(judge, ex, out), **KW)
    return acc.plain()


def _job_expand(job):
    """Top two levels of the schedule tree of a large harness -> record + independent subtree roots."""
    name, bound = job
    make, judge = _wrapped(name, harness_spec(name))
    acc = _Acc()
    level = [()]
    for _ in range(2):
        nxt = []
        for prefix in level:
            ex, out = sched.run_schedule(make, prefix, **KW)
            acc.add(judge, ex, out)
            nxt.extend(sched.children(ex, len(prefix), bound))
        level = nxt
    return acc.plain(), level


def _job_subtree(job):
    name, bound, prefixes = job
    make, judge = _wrapped(name, harness_spec(name))
    acc = _Acc()
    sched.dfs(make, [tuple(p) for p in prefixes], bound, lambda prefix, ex, out: acc.add(judge, ex, out), **KW)
    return acc.plain()


def explore_schedules(ctx, small_jobs, big_jobs):
    """small_jobs/big_jobs: [(harness name, preemption bound)]. Returns {(name, bound): merged record}."""
    merged = {}

    def merge(key, rec):
        m = merged.setdefault(key, [0, {}, [], 0, 0])
        m[0] += rec[0]
        for k, n in rec[1].items():
            m[1][k] = m[1].get(k, 0) + n
        m[2].extend(rec[2])
        m[3] = max(m[3], rec[3])
        m[4] = max(m[4], rec[4])

    small_jobs = common.rotate(sorted(small_jobs), ctx.seed)
    for job, rec in zip(small_jobs, common.pmap(_job_whole, small_jobs)):
        merge(job, rec)
    big_jobs = common.rotate(sorted(big_jobs), ctx.seed)
    subs = []
    for job, (rec, roots) in zip(big_jobs, common.pmap(_job_expand, big_jobs)):
        merge(job, rec)
        roots = sorted(roots)
        # several subtree roots per work item keep the items comparable in size without one fork per root
        for i in range(0, len(roots), 8):
            subs.append((job[0], job[1], roots[i:i + 8]))
    subs = common.rotate(subs, ctx.seed)
    for job, rec in zip(subs, common.pmap(_job_subtree, subs)):
        merge((job[0], job[1]), rec)
    return merged


class _Out:
    __slots__ = ("view", "full")

    def __init__(self, view, full):
        self.view, self.full = view, full

    def __repr__(self):
        return repr(self.view)


# =====================================================================================================

def run(ctx):
    _setup()
    model = Model(ctx.tier)
    probe = Box(3, 2, 60)
    ctx.coverage["locks_replaced"] = [f"{k}:{'re-entrant' if val.reentrant else 'non-re-entrant'}"
                                      for k, val in locks_in(probe.lys)]
    if not ctx.coverage["locks_replaced"]:
        raise common.HarnessError("Lysosome has no threading.Lock/RLock attribute to replace")
    # two instances in one process must not see each other; the clone/replay self-test below presumes that much
    # (every explored state is a fresh instance: with shared state neither the self-test nor the exploration mean anything)
    shared = hits = 0
    for root in ([3, 8, 60, "mid", "custom", True], [3, 2, 60, "full", "partial", False],
                 [2, 8, 60, "mid", "custom", False, "second"]):
        for hist, op in (([("ingest", "MISFOLDED_PROTEIN", "recycle"), ("ingest_sensitive", "ok"), ("digest", 1)], ("decoy",)),
                         ([("ingest_error", "recycle"), ("ingest_sensitive", "ok"), ("decoy",)], ("digest", None)),
                         ([("ingest_sensitive", "ok"), ("decoy",)], ("ingest", "ORPHANED_RESOURCE", "empty"))):
            probe_case = {"root": root, "hist": hist, "op": op}
            for k, w in explore.replay_case(model, probe_case):
                # every verdict of the normal oracle is reported; only those that say "one instance noticed the other"
                # put the exploration itself in question
                shared += any(t in k for t in ISOLATION_KEYS)
                hits += 1
                ctx.report(k, f"after history {hist} op {op}: {w}", probe_case)
    if not shared:
        try:
            _selfcheck(model)
        except common.HarnessError as e:
            if not hits:
                raise
            ctx.defer_harness_error(str(e))  # next to the violations the probe reported
            shared = 1
    if shared:
        ctx.coverage.update(states=1, transitions=9, traces_validated_against_impl=9, evaluations=9, distinct_nontrivial=1,
                            rule="instance-isolation probe only: a second Lysosome in the same process disturbed the first "
                                 "one, the exploration (one fresh instance per state) was not started",
                            exhaustive=False, caps_hit=["stopped after the instance-isolation probe"])
        ctx.outcomes.add(("isolation-probe", "violated"))
        return
    depth = DEPTH[ctx.tier]
    res = explore.explore(model, ctx, depth, validate_canon=200 if ctx.tier == "thorough" else 0)
    n_seq_outcomes = len(ctx.outcomes)

    # ---- schedules
    sysm = systematic(ctx.tier)
    if ctx.tier == "quick":
        small = [(n, 2) for n in sysm] + [(n, 1) for n in CURATED]
        big = [(n, 2) for n in QUICK_CURATED]
    else:
        single = systematic("quick")
        small = [(n, 1) for n in sysm if n not in single] + [(n, 3) for n in single]
        big = [(n, 2 if n == "T7-threshold3" else 3) for n in CURATED]  # T7 has the longest executions: bound 2
    merged = explore_schedules(ctx, small, big)
    total_exec = 0
    max_points = 0
    sched_outcomes = set()
    per = {}
    for (name, bound), (n_exec, outcomes, viols, mp, mpre) in sorted(merged.items()):
        total_exec += n_exec
        max_points = max(max_points, mp)
        for o in outcomes:
            sched_outcomes.add((name, o))
        if name in CURATED:
            per[f"{name}@{bound}"] = {"schedules": n_exec, "distinct_outcomes": len(outcomes), "max_choice_points": mp,
                                      "max_preemptions": mpre, "preemption_bound": bound}
        for k, what, case in sorted(viols, key=lambda x: (x[0], x[2]["schedule"])):
            ctx.report(k, what, {"engine": "C", "harness": name, **case})
    for name, o in sched_outcomes:
        ctx.outcomes.add(("C", name, o))
    bounds = {"systematic-pairs": sorted({b for n, b in small if n in sysm}),
              "curated": sorted({b for n, b in small + big if n in CURATED})}
    specs = {n for n, _b in small + big}
    ctx.sample({"engine": "C", "harness": "T4-threshold-vs-digest-autophagy", "spec": CURATED["T4-threshold-vs-digest-autophagy"]})
    ctx.coverage.update(
        states=res["states"],
        transitions=res["transitions"] + total_exec,
        traces_validated_against_impl=res["transitions"] + total_exec,
        evaluations=res["transitions"] + total_exec,
        distinct_nontrivial=res["states"] + len(sched_outcomes),
        rule="A: BFS over sequential histories of the real Lysosome per configuration (max_queue_size, "
             "auto_digest_threshold, retention incl. 0, item alphabet level, digester registry custom/partial/builtin, "
             "silent); operations = ingest of each type x digester answer (dict, {}, None, 0, non-dict, raise with/"
             "without message, 4 exception classes, re-entering ingest), ingest_error, ingest_sensitive x on_toxic "
             "answer, daemon prune (forced / critical), digest(None/0/1/2/9), autophagy, clock advance, "
             "clear_recycling_bin, further instances next to the first (separate arguments / the SAME caller-owned "
             "digesters dict object with an own on_toxic, each call on them and the first instance's calls afterwards "
             "judged by the same oracle, observations compared with a lone instance), construction order (instance "
             "under test built second from the caller's dict); canonical state = queue as a sequence of (waste "
             "type, digester behaviour, capped age); distinct/non-trivial = distinct canonical state. C: every schedule "
             "of each 2-thread harness up to the preemption bound, scheduling point = every source line of lysosome.py; "
             "distinct = distinct (harness, outcome) pair. transitions = A transitions + C schedules",
        exhaustive=not res["capped"],
        fixpoint=res["fixpoint"],
        depth_completed=res["depth_completed"],
        configurations=res["roots"],
        sequential={"states": res["states"], "transitions": res["transitions"], "distinct_outcomes": n_seq_outcomes},
        schedules={"harnesses": len(specs), "systematic_pair_harnesses": len(sysm), "executions": total_exec,
                   "distinct_outcomes": len(sched_outcomes), "max_choice_points": max_points, "capped": 0,
                   "preemption_bounds": bounds, "curated": per},
    )
    ctx.note("reading: an item dropped by the emergency path counts as 'emergency-dropped' whether or not a warning was "
             "logged for it; on every other path a raising digester must be visible in a returned DigestResult or in a "
             "warning on the module logger")
    ctx.note("reading: an expired sensitive item is disposed of by autophagy without the toxic callback (by design, not judged)")
    ctx.note("digest(max_items=0) digests everything (falsy test) and an auto-digest at threshold 1 therefore empties the "
             "queue: accounted for, not judged")
    ctx.note("reading: a digester that returns a truthy non-dict is either counted as digested or reported as a digestion "
             "error (the library reports it); a failure report that names no item (exception without a message) is matched "
             "by count: as many anonymous reports as anonymous failures outside the emergency path")
    ctx.note("reading: items of types without a harness digester (registry 'partial'/'builtin') are observed through the "
             "counters only: leaving the queue outside autophagy must raise total_digested (at capacity: may)")
    if not REENTER_AT_CAPACITY:
        ctx.note("not explored: a digester / on_toxic that re-enters ingest() while the queue is at capacity (outside the "
                 "property's quantifier; on the pinned tree the emergency digest then recurses on the still-queued oldest half "
                 "until RecursionError: the same sensitive item reaches on_toxic hundreds of times). Re-entering digesters "
                 "are explored on the digest and auto-digest paths (auto_digest_threshold <= max_queue_size)")
    ctx.assumptions += [
        "CoopLock has the mutual-exclusion semantics of threading.Lock/RLock; a sequential self re-acquire of a "
        "non-re-entrant lock never returns (HangDetected); under the scheduler it is a detected deadlock",
        "interleavings are explored at source-line granularity of lysosome.py (CPython 3.12 switches threads only at "
        "calls and backward jumps, so a single `x += 1` line is atomic)",
        "Waste objects built inside the library are stamped with the virtual clock (module global Waste rebound)",
        "harness digesters (all four non-sensitive waste types, or two of them in registry 'partial') behave as fixed "
        "per item at ingestion; they are plain caller functions in one caller-owned dict and report to the instance whose "
        "public call is running (sequential engine); each instance has its own on_toxic callback; sensitive items go through the library's own toxic digester and the harness on_toxic",
        "console output of silent=False runs is swallowed by a module-level print in lysosome/autophagy_daemon",
        "the role of a processed item (digest / auto-digest / emergency) is derived from the public call under judgement "
        "(kind; ingest at capacity or not; in schedules: whether the configuration can reach capacity)",
    ]


def replay(ctx, case):
    _setup()
    if case.get("engine") == "C":
        name = case["harness"]
        spec = harness_spec(name)
        make0 = make_factory(spec)
        judge0 = judge_factory(name, spec)
        outs = []
        for _ in range(2):
            bodies, finish = make0()
            ex = sched.Sched(bodies, tuple(case["schedule"]), trace_files=(LYSO_FILE,)).run()
            out = finish(ex)
            outs.append((outcome_view(out), ex.deadlock))
        if repr(outs[0]) != repr(outs[1]):
            raise common.HarnessError(f"replay not deterministic: {outs}")
        print("  schedule (thread order):", ex.thread_order)
        print("  outcome:", outs[0])
        return judge0(ex, out)
    return explore.replay_case(Model(ctx.tier), case)
