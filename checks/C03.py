"""C03 - tools outside the allowed capability set are never executed, on any path.

Engine A (explicit-state BFS over histories of registration / re-registration / calls on the real
`Mitochondria`) + engine B (choice-point search: a scripted LLM provider whose every round is a
choice point drives `Nucleus.transcribe_with_tools`; registrations of the scenario are choice
points too).

Oracle (from the statement; observations: a side-effect counter inside every tool body,
MetabolicResult.success, ToolResult.success):
  * engine has an allowed set and a tool's declared requirement is not a subset of it
      => that tool's counter never changes, whatever entry point asks for it
         (also for a tool object that has since been replaced by re-registration);
  * a request that names a currently registered disallowed tool is reported as a failure
    (MetabolicResult.success / ToolResult.success false).
Allowed tools actually running is recorded as an outcome (non-vacuity guard), not judged.
"""
from __future__ import annotations

from mc import choice, common, explore

from operon_ai.core.types import Capability
from operon_ai.organelles.mitochondria import MetabolicPathway, Mitochondria
from operon_ai.organelles.nucleus import Nucleus
from operon_ai.providers import LLMResponse, ToolCall

CAP = {c.name: c for c in Capability}
ALLOWED = [None, [], ["NET"], ["NET", "READ_FS"]]
REQS = [[], ["NET"], ["MONEY"], ["NET", "MONEY"]]
# how the requirement is declared: attribute `required_capabilities` (set), alternative attribute
# `capabilities` (list), no attribute at all, or register_function(required_capabilities=...)
DECLS = [("required", r) for r in REQS] + [("capabilities", r) for r in REQS] + [("none", [])] + \
        [("register", r) for r in REQS]
DECLS_T2 = [("required", ["NET"]), ("capabilities", ["MONEY"]), ("register", ["NET", "MONEY"]), ("none", [])]
PW = {"auto": None, "tool": MetabolicPathway.OXIDATIVE, "math": MetabolicPathway.GLYCOLYSIS,
      "logic": MetabolicPathway.KREBS_CYCLE, "transform": MetabolicPathway.BETA_OXIDATION}
SHAPES = {
    "call": "{n}()", "args": "{n}(1, k=2)", "plus": "{n}() + 1", "list": "[{n}()]", "and": "1 and {n}()",
    "nest": "abs({n}())", "arg-of-other": "{o}({n}())", "upper": "{N}()", "space": " {n}()",
}
MET_QUICK = [("auto", s) for s in SHAPES] + [("tool", s) for s in ("call", "args", "plus", "arg-of-other", "upper", "space")] + \
            [("math", s) for s in ("call", "nest", "and")] + [("logic", s) for s in ("call", "and")] + \
            [("transform", s) for s in ("call", "list")]
MET_THOROUGH = [(p, s) for p in PW for s in SHAPES]
LLM_SCRIPTS = [[["t0"]], [["t1"]], [["t0", "t1"]], [["zz"], ["t0"]], [["t0"], ["t0"]]]
KNOWN_ATTRS = {"timeout", "max_ros", "silent", "allowed_capabilities", "tools", "_total_atp_produced",
               "_ros_accumulated", "_operations_count"}


class _ToolBase:
    def __init__(self, name):
        self.name = name
        self.description = f"probe tool {name}"
        self.calls = 0

    def execute(self, *args, **kwargs):
        self.calls += 1  # the side effect the property forbids for disallowed tools
        return f"ran:{self.name}"


class ReqTool(_ToolBase):
    def __init__(self, name, req):
        super().__init__(name)
        self.required_capabilities = set(req)


class CapTool(_ToolBase):
    def __init__(self, name, req):
        super().__init__(name)
        self.capabilities = list(req)


class BareTool(_ToolBase):
    pass


class Rec:
    """reference record of one tool object ever registered in this history"""
    __slots__ = ("name", "style", "req", "obj", "current")

    def count(self):
        return self.obj.calls


class St:
    __slots__ = ("mito", "allowed", "recs", "last")


def caps(names):
    return {CAP[n] for n in names}


def build_state(allowed):
    st = St()
    st.allowed = None if allowed is None else frozenset(allowed)
    st.mito = Mitochondria(silent=True, max_ros=1e9, allowed_capabilities=None if allowed is None else caps(allowed))
    st.recs = []
    st.last = ("init",)
    return st


def register(st, name, style, req):
    rec = Rec()
    rec.name, rec.style, rec.req, rec.current = name, style, frozenset(req), True
    if style == "required":
        rec.obj = ReqTool(name, caps(req))
        st.mito.engulf_tool(rec.obj)
    elif style == "capabilities":
        rec.obj = CapTool(name, [CAP[n] for n in req])
        st.mito.engulf_tool(rec.obj)
    elif style == "none":
        rec.obj = BareTool(name)
        st.mito.engulf_tool(rec.obj)
    elif style == "register":
        rec.obj = BareTool(name)  # only its counter/body is used: the engine wraps obj.execute in a SimpleTool
        st.mito.register_function(name, rec.obj.execute, description="fn", required_capabilities=caps(req))
    else:
        raise common.HarnessError(f"unknown declaration style {style}")
    for r in st.recs:
        if r.name == name:
            r.current = False
    st.recs.append(rec)


def current(st, name):
    for r in reversed(st.recs):
        if r.name == name and r.current:
            return r
    return None


def disallowed(st, rec):
    return st.allowed is not None and not rec.req <= st.allowed


def judge_counters(st, before, entry):
    v = []
    for rec, b in zip(st.recs, before):
        a = rec.count()
        if a != b and disallowed(st, rec):
            v.append((f"executed-disallowed:{entry}" + ("" if rec.current else ":replaced-tool"),
                      f"tool {rec.name!r} declared via {rec.style} requiring {sorted(rec.req)} ran {a - b}x although the engine "
                      f"only allows {sorted(st.allowed)}"))
    return v


class ScriptedProvider:
    """LLM provider whose tool requests are dictated round by round by `next_round(i) -> [tool names]`"""
    name = "scripted"

    def __init__(self, next_round):
        self.next_round = next_round
        self.rounds = 0
        self.offered = []

    def is_available(self):
        return True

    def complete(self, prompt, config=None):
        return LLMResponse(content="final", model="scripted", tokens_used=1, latency_ms=0.0)

    def complete_with_tools(self, prompt, tools, config=None):
        self.offered.append([t.name for t in tools])
        names = self.next_round(self.rounds)
        r = self.rounds
        self.rounds += 1
        calls = [ToolCall(id=f"c{r}_{j}", name=n, arguments={}) for j, n in enumerate(names)]
        return LLMResponse(content="" if calls else "done", model="scripted", tokens_used=1, latency_ms=0.0), calls


def llm_loop(st, next_round, auto, max_iter):
    """run Nucleus.transcribe_with_tools against st.mito; -> (violations, requested names, results seen)"""
    seen = []
    orig = st.mito.execute_tool_call

    def spy(call):
        r = orig(call)
        seen.append((call.name, bool(r.success)))
        return r

    requested = []

    def rounds(i):
        names = next_round(i)
        requested.extend(names)
        return names

    before = [r.count() for r in st.recs]
    targets = {r.name: r for r in st.recs if r.current}
    st.mito.execute_tool_call = spy  # observe ToolResult.success of the calls the loop makes
    try:
        nuc = Nucleus(provider=ScriptedProvider(rounds))
        nuc.transcribe_with_tools("use the tools", st.mito, max_iterations=max_iter, auto_execute=auto)
    except Exception as e:  # noqa: BLE001
        v = [(f"raises:llm-loop:{type(e).__name__}", f"transcribe_with_tools raised {type(e).__name__}: {e}")]
        return v + judge_counters(st, before, "llm-loop"), requested, seen
    finally:
        del st.mito.__dict__["execute_tool_call"]
    v = judge_counters(st, before, "llm-loop")
    for name, success in seen:
        rec = targets.get(name)
        if rec is not None and disallowed(st, rec) and success:
            v.append(("disallowed-call-reported-success:llm-loop",
                      f"ToolResult.success is True for {name!r} requiring {sorted(rec.req)} under allowed {sorted(st.allowed)}"))
    return v, requested, seen


class Model:
    def __init__(self, tier):
        self.tier = tier
        self.names = ["t0", "t1"] + (["t2"] if tier == "thorough" else [])
        self.met = MET_THOROUGH if tier == "thorough" else MET_QUICK

    def roots(self):
        return list(ALLOWED)

    def build(self, root):
        return build_state(root)

    def ops(self, st):
        o = []
        for n in self.names:
            for style, req in (DECLS_T2 if n == "t2" else DECLS):
                o.append(("reg", n, style, list(req)))
        for n in self.names[:2] + ["zz"]:
            for pw, shape in self.met:
                o.append(("met", n, pw, shape))
            o.append(("etc", n, 0))
            o.append(("etc", n, 1))
        for i in range(len(LLM_SCRIPTS)):
            o.append(("llm", i, True))
            o.append(("llm", i, False))
        return o

    def canon(self, st):
        cur = {r.name: (r.style, tuple(sorted(r.req))) for r in st.recs if r.current}
        order = tuple((n, cur.get(n)) for n in st.mito.tools)  # registration order kept by the engine
        if set(cur) != set(st.mito.tools):
            raise common.HarnessError(f"reference registry {sorted(cur)} != engine registry {sorted(st.mito.tools)}")
        # any attribute this harness does not know (e.g. a decision cache added later) keeps states apart
        extra = tuple(sorted((k, repr(v)) for k, v in st.mito.__dict__.items() if k not in KNOWN_ATTRS))
        return (order, extra)

    def observe(self, st):
        return repr(st.last)

    def step(self, st, op):
        kind = op[0]
        before = [r.count() for r in st.recs]
        if kind == "reg":
            _, name, style, req = op
            register(st, name, style, req)
            st.last = ("reg", style)
            return judge_counters(st, before + [0], "registration")
        if kind == "met":
            _, name, pw, shape = op
            other = "t1" if name == "t0" else "t0"
            text = SHAPES[shape].format(n=name, o=other, N=name.upper())
            entry = f"metabolize:{pw}"
            try:
                res = st.mito.metabolize(text, PW[pw])
                success = bool(res.success)
            except Exception as e:  # noqa: BLE001 - totality is C01's property; here a raise is a refusal
                success = False
                st.last = ("met", pw, shape, "raised", type(e).__name__)
            v = judge_counters(st, before, entry)
            rec = current(st, name)
            ran = rec is not None and rec.count() != before[st.recs.index(rec)]
            if rec is not None and disallowed(st, rec) and success:
                v.append((f"disallowed-call-reported-success:{entry}",
                          f"metabolize({text!r}) reports success although {name!r} requires {sorted(rec.req)} and only "
                          f"{sorted(st.allowed)} is allowed"))
            st.last = ("met", pw, shape, "no-tool" if rec is None else ("disallowed" if disallowed(st, rec) else "allowed"),
                       "ran" if ran else "not-run", success)
            return v
        if kind == "etc":
            _, name, withargs = op
            entry = "execute_tool_call"
            try:
                res = st.mito.execute_tool_call(ToolCall(id="c1", name=name, arguments={"k": 2} if withargs else {}))
                success = bool(res.success)
            except Exception as e:  # noqa: BLE001
                success = False
                st.last = ("etc", "raised", type(e).__name__)
            v = judge_counters(st, before, entry)
            rec = current(st, name)
            ran = rec is not None and rec.count() != before[st.recs.index(rec)]
            if rec is not None and disallowed(st, rec) and success:
                v.append((f"disallowed-call-reported-success:{entry}",
                          f"ToolResult.success is True for {name!r} requiring {sorted(rec.req)} under allowed {sorted(st.allowed)}"))
            st.last = ("etc", "no-tool" if rec is None else ("disallowed" if disallowed(st, rec) else "allowed"),
                       "ran" if ran else "not-run", success)
            return v
        if kind == "llm":
            _, si, auto = op
            script = LLM_SCRIPTS[si]
            v, requested, seen = llm_loop(st, lambda i: script[i] if i < len(script) else [], bool(auto), 3)
            st.last = ("llm", bool(auto), tuple(seen))
            return v
        raise common.HarnessError(f"unknown op {op!r}")


# ---- engine B ---------------------------------------------------------------------------------------
ROUND_OPTIONS = [[], ["t0"], ["t1"], ["zz"], ["t0", "t1"], ["t1", "t1"]]


def make_run(allowed_idx, decl0_idx, max_iter):
    def run(ch):
        st = build_state(ALLOWED[allowed_idx])
        register(st, "t0", *DECLS[decl0_idx])
        d1 = ch.pick(len(DECLS) + 1, "t1-decl")
        if d1:
            register(st, "t1", *DECLS[d1 - 1])
        rr = ch.pick(len(DECLS) + 1, "t0-reregister")
        if rr:
            register(st, "t0", *DECLS[rr - 1])
        auto = ch.pick(2, "auto_execute") == 0
        v, requested, seen = llm_loop(st, lambda i: ROUND_OPTIONS[ch.pick(len(ROUND_OPTIONS), f"round{i}")], auto, max_iter)
        targets = {r.name: r for r in st.recs if r.current}
        asked_disallowed = any(n in targets and disallowed(st, targets[n]) for n in requested)
        ran_allowed = any(s for n, s in seen if n in targets and not disallowed(st, targets[n]))
        obs = (auto, len(requested), asked_disallowed, ran_allowed, tuple(sorted(set(s for _n, s in seen))))
        return v, obs, asked_disallowed
    return run


def _b_root(arg):
    allowed_idx, decl0_idx, max_iter, max_dev = arg
    run = make_run(allowed_idx, decl0_idx, max_iter)
    n = 0
    nontrivial = 0
    outcomes = set()
    viol = {}
    for ch, res in choice.explore(run, max_dev=max_dev, horizon=64):
        n += 1
        if res and res[0] == "too-many-choices":
            raise common.HarnessError(f"engine B scenario did not terminate: {res}")
        v, obs, asked = res
        outcomes.add(obs)
        nontrivial += bool(asked)
        for key, what in v:
            lab = [list(x) for x in ch.labelled()]
            rank = (len(lab), repr(lab))
            cur = viol.get(key)
            if cur is None:
                viol[key] = [1, rank, what, lab]
            else:
                cur[0] += 1
                if rank < cur[1]:
                    cur[1], cur[2], cur[3] = rank, what, lab
    return n, nontrivial, outcomes, viol


def run(ctx):
    thorough = ctx.tier == "thorough"
    model = Model(ctx.tier)
    depth = 5 if thorough else 4
    res = explore.explore(model, ctx, depth, validate_canon=200 if thorough else 40)

    max_iter = 3 if thorough else 2
    max_dev = None if thorough else 3
    roots = [(a, d, max_iter, max_dev) for a in range(len(ALLOWED)) for d in range(len(DECLS))]
    b_exec = b_nontrivial = 0
    merged = {}
    rotated = common.rotate(roots, ctx.seed)
    for root, (n, nontrivial, outcomes, viol) in zip(rotated, common.pmap(_b_root, rotated)):
        b_exec += n
        b_nontrivial += nontrivial
        ctx.outcomes |= {("B",) + o for o in outcomes}
        for key, (cnt, rank, what, lab) in viol.items():
            rank = (rank, root[:2])
            cur = merged.get(key)
            if cur is None:
                merged[key] = [cnt, rank, what, lab, root]
            else:
                cur[0] += cnt
                if rank < cur[1]:
                    cur[1], cur[2], cur[3], cur[4] = rank, what, lab, root
    for key in sorted(merged):
        cnt, _rank, what, lab, root = merged[key]
        case = {"engine": "B", "root": [root[0], root[1]], "max_iter": root[2], "choices": lab}
        for _ in range(cnt):
            ctx.report(key, f"allowed={ALLOWED[root[0]]} t0={DECLS[root[1]]} choices={lab}: {what}", case)
    ctx.stats["B.executions"] += b_exec
    ran_allowed = any("'allowed', 'ran'" in o for o in ctx.outcomes if isinstance(o, str))
    refused = any("'disallowed', 'not-run'" in o for o in ctx.outcomes if isinstance(o, str))
    if not ran_allowed or not refused:
        raise common.HarnessError("vacuous exploration: no allowed tool ever ran or no disallowed tool was ever refused")
    ctx.sample({"root": ["NET"], "hist": [["reg", "t0", "required", ["MONEY"]]], "op": ["etc", "t0", 0]})
    ctx.sample({"engine": "B", "root": [1, 1], "max_iter": max_iter, "choices": [[0, "t1-decl"], [0, "t0-reregister"],
                                                                                 [0, "auto_execute"], [1, "round0"], [0, "round1"]]})
    ctx.coverage.update(
        states=res["states"],
        transitions=res["transitions"] + b_exec,
        traces_validated_against_impl=res["transitions"] + b_exec,
        evaluations=res["transitions"] + b_exec,
        distinct_nontrivial=res["states"] + b_nontrivial,
        rule="engine A: BFS over canonical states (allowed set; per tool name the declaration style and requirement of the "
        "currently registered tool, in registration order; every engine attribute unknown to the harness) with every "
        "registration / re-registration / metabolize(text shape x pathway) / execute_tool_call / scripted LLM-loop operation "
        "applied in every reachable state; engine B: every answer sequence of the scripted provider (stop / t0 / t1 / unknown / "
        "two tools per round) after every (allowed set, t0 declaration, t1 declaration or none, t0 re-registration or none, "
        "auto_execute) prefix; distinct_nontrivial = distinct canonical states + engine-B executions in which a currently "
        "disallowed tool was requested",
        exhaustive=bool(res["fixpoint"]) and max_dev is None,
        fixpoint=res["fixpoint"],
        depth_completed=res["depth_completed"],
        engine_b={"executions": b_exec, "roots": len(roots), "max_iterations": max_iter, "max_deviations": max_dev,
                  "requests_for_disallowed_tool": b_nontrivial},
        allowed_sets=ALLOWED, declarations=len(DECLS), tool_names=model.names,
        entry_points=sorted({f"metabolize:{p}" for p, _ in model.met}) + ["execute_tool_call", "llm-loop"],
    )
    if max_dev is not None:
        ctx.coverage["caps_hit"] = f"engine B bounded to {max_dev} non-default answers per scenario in the quick tier"
    if not res["fixpoint"]:
        ctx.coverage["caps_hit"] = (ctx.coverage.get("caps_hit", "") + f"; engine A depth {depth} reached with "
                                    f"{res['frontier_left']} frontier states left").lstrip("; ")
    ctx.assumptions += [
        "max_ros=1e9: the ROS latch (which only ever refuses more) never engages within the explored depth",
        "requirements are sets of Capability members; a tool declaring both `required_capabilities` and `capabilities` "
        "is not modelled (the statement does not say which one is 'the' declaration)",
        "hidden state outside Mitochondria.__dict__ (module globals, closures) is not part of the canonical state",
    ]


def replay(ctx, case):
    if case.get("engine") == "B":
        root = case["root"]
        run_ = make_run(int(root[0]), int(root[1]), int(case["max_iter"]))
        _ch, res = choice.replay(run_, [tuple(x) for x in case["choices"]], horizon=64)
        return list(res[0])
    fixed = {"root": case["root"], "hist": [_fix(o) for o in case["hist"]], "op": _fix(case["op"])}
    if fixed["root"] is not None:
        fixed["root"] = list(fixed["root"])
    return explore.replay_case(Model(ctx.tier), fixed)


def _fix(op):
    return tuple(list(x) if isinstance(x, tuple) else x for x in op)
