"""C03 - tools outside the allowed capability set are never executed, on any path.

Engine A (explicit-state BFS over histories of registration / re-registration / calls on the real
`Mitochondria`) + engine B (choice-point search: a scripted LLM provider whose every round is a
choice point drives `Nucleus.transcribe_with_tools`; registrations of the scenario are choice
points too).

Oracle (from the statement; observations: a side-effect counter inside every tool body,
MetabolicResult.success, ToolResult.success):
  * engine has an allowed set and a tool's declared requirement is not a subset of it
      => that tool's counter never changes, whatever entry point asks for it
         (also for a tool object that has since been replaced by re-registration);
  * a request that names a currently registered disallowed tool is reported as a failure
    (MetabolicResult.success / ToolResult.success false).
Allowed tools actually running is recorded as an outcome (non-vacuity guard), not judged.

Engine A, identity model (second BFS): who "the registered tool" is. The oracle above is per tool OBJECT (the recorder
lives in the body, the declaration is the one that object carries when the request is made) and per registry KEY (the
object the observer bound to the requested key); the model explores everything that lets key, object name and
declaration drift apart through the public surface: relabelling a registered object, engulfing it again (one object,
two keys), a different tool registered under the name another object points to, declarations replaced / mutated in
place / moved to the other attribute after registration, direct writes to the public `tools` dict, tools whose `name`
and declaration are properties - crossed with the restricted allowed sets and one request per entry point and key.

Engine D (flat, exhaustive scenario family; same step functions and the same oracle): the dimensions the two
searches above hold fixed -
  * every constructor option of the engine (silent, timeout_seconds, max_ros, the container type of the allowed
    set, registration through the constructor's `tools=`) crossed with every entry point / text shape and with
    every form a declaration can take (set / frozenset / list / tuple, both attributes, attribute present but
    None, a SimpleTool engulfed directly, requirements given as plain strings);
  * histories judged by what the OBSERVER did before, not by the engine's own attributes: the judged request
    runs after a prefix (a call through any entry point to the same or another name, an introspection call,
    repair(), a call on ANOTHER engine in the same process that knows the same name or shares the very same
    tool object) and after re-registration - so a decision remembered anywhere (instance attribute, class,
    module, closure, the tool object, a long-lived Nucleus) is exercised.
"""
from __future__ import annotations

import collections
import contextlib
import dataclasses
import datetime
import enum
import itertools
import types

from mc import choice, common, explore

from operon_ai.core.types import Capability
from operon_ai.organelles.mitochondria import MetabolicPathway, Mitochondria, SimpleTool
from operon_ai.organelles.nucleus import Nucleus
from operon_ai.providers import LLMResponse, ProviderConfig, ToolCall

CAP = {c.name: c for c in Capability}
ALLOWED = [None, [], ["NET"], ["NET", "READ_FS"]]
REQS = [[], ["NET"], ["MONEY"], ["NET", "MONEY"]]
# how the requirement is declared: attribute `required_capabilities` (set), alternative attribute
# `capabilities` (list), no attribute at all, or register_function(required_capabilities=...)
DECLS = [("required", r) for r in REQS] + [("capabilities", r) for r in REQS] + [("none", [])] + \
        [("register", r) for r in REQS]
DECLS_T2 = [("required", ["NET"]), ("capabilities", ["MONEY"]), ("register", ["NET", "MONEY"]), ("none", [])]
PW = {"auto": None, "tool": MetabolicPathway.OXIDATIVE, "math": MetabolicPathway.GLYCOLYSIS,
      "logic": MetabolicPathway.KREBS_CYCLE, "transform": MetabolicPathway.BETA_OXIDATION}
SHAPES = {
    "call": "{n}()", "args": "{n}(1, k=2)", "plus": "{n}() + 1", "list": "[{n}()]", "and": "1 and {n}()",
    "nest": "abs({n}())", "arg-of-other": "{o}({n}())", "upper": "{N}()", "space": " {n}()",
}
MET_QUICK = [("auto", s) for s in SHAPES] + [("tool", s) for s in ("call", "args", "plus", "arg-of-other", "upper", "space")] + \
            [("math", s) for s in ("call", "nest", "and")] + [("logic", s) for s in ("call", "and")] + \
            [("transform", s) for s in ("call", "list")]
MET_THOROUGH = [(p, s) for p in PW for s in SHAPES]
LLM_SCRIPTS = [[["t0"]], [["t1"]], [["t0", "t1"]], [["zz"], ["t0"]], [["t0"], ["t0"]]]
INTRO = ["list_tools", "export_tool_schemas", "get_statistics", "repair"]  # public calls that are not requests for a tool
ETC_NAMES = ["t0", "t1", "zz", "T0", " t0"]  # structured calls also ask for near-miss spellings of a registered name

# ---- engine D alphabet ----------------------------------------------------------------------------------
# a requirement entry "s:<text>" is the plain string <text> instead of a Capability member (the engine's own
# listing code anticipates such entries); no string is a member of any allowed set of the alphabet
REQS_X = [["NET"], ["MONEY"], ["NET", "MONEY"]]
DECLS_X = DECLS + \
    [(f"required-{c}", r) for c in ("frozenset", "list", "tuple") for r in REQS_X] + \
    [(f"capabilities-{c}", r) for c in ("set", "tuple") for r in REQS_X] + \
    [("both", r) for r in REQS_X] + [("required-none", [])] + [("simpletool", r) for r in REQS] + \
    [("required", ["s:money"]), ("capabilities", ["s:root"]), ("register", ["NET", "s:root"]), ("simpletool", ["s:money"])]
BASE_OPTS = {"silent": True, "timeout": 5.0, "max_ros": 1e9, "container": "set", "via": "call"}
# non-default values per constructor dimension ("via": the first registrations go through `tools=` of the constructor)
OPT_ALTS = [("silent", [False]), ("timeout", [0]), ("max_ros", [1.0, 0.0]), ("container", ["frozenset"]), ("via", ["ctor"])]
RESTRICTED = [a for a in ALLOWED if a is not None]
ALL_CAPS = [c.name for c in Capability]
CALL_KINDS = {  # one representative request per entry point, for prefixes and for the judged call of a history
    "met-auto": lambda n: ("met", n, "auto", "call"),
    "met-tool": lambda n: ("met", n, "tool", "args"),
    "etc": lambda n: ("etc", n, 0),
    "llm": lambda n: ("llmx", [[n]], True, 3, False),
}
PREFIXES = [("none",)] + [("call", t, k) for t in ("t0", "t1") for k in CALL_KINDS] + [("intro", w) for w in INTRO] + \
           [(how, a2, k) for how in ("other", "shared") for a2 in ("none", "all") for k in ("met-tool", "etc")]
LLMX_SCRIPTS = [[["t0"]], [["zz", "T0"], ["t0", "t0"]]]  # direct request; unknown + near-miss name, then the same tool twice


def opt_combos(full):
    if full:
        dims = [[(k, BASE_OPTS[k])] + [(k, v) for v in alts] for k, alts in OPT_ALTS]
        return [tuple(kv for kv in combo if kv[1] != BASE_OPTS[kv[0]]) for combo in itertools.product(*dims)]
    return [()] + [((k, v),) for k, alts in OPT_ALTS for v in alts]


class _ToolBase:
    def __init__(self, name):
        self.name = name
        self.description = f"probe tool {name}"
        self.calls = 0

    def execute(self, *args, **kwargs):
        self.calls += 1  # the side effect the property forbids for disallowed tools
        return f"ran:{self.name}"


class ReqTool(_ToolBase):
    def __init__(self, name, req):
        super().__init__(name)
        self.required_capabilities = set(req)


class CapTool(_ToolBase):
    def __init__(self, name, req):
        super().__init__(name)
        self.capabilities = list(req)


class BareTool(_ToolBase):
    pass


class FormTool(_ToolBase):
    """declaration given as arbitrary attributes (other container types, both attributes, attribute set to None)"""

    def __init__(self, name, attrs):
        super().__init__(name)
        for k, v in attrs.items():
            setattr(self, k, v)


class PropTool(_ToolBase):
    """`name` and the declaration are properties over backing fields (the Tool protocol itself spells `name` as a property)"""

    def __init__(self, name, req):
        self._label = None
        self._req = set(req)
        super().__init__(name)

    @property
    def name(self):
        return self._label

    @name.setter
    def name(self, value):
        self._label = value

    @property
    def required_capabilities(self):
        return self._req

    @required_capabilities.setter
    def required_capabilities(self, value):
        self._req = value


class Rec:
    """reference record of one tool OBJECT ever registered in this history: `obj` carries the recorder inside the body
    that runs, `holder` is the object that sits in the engine's registry (the same object, or the SimpleTool wrapping
    obj.execute), `req` what that object declares NOW (kept up to date by the harness when it changes the declaration),
    `name` the name it was first registered under (only a label for messages)"""
    __slots__ = ("name", "style", "req", "obj", "holder", "attr")

    def count(self):
        return self.obj.calls


class St:
    """`reg` is the reference registry, key -> Rec, derived from the public calls the harness made (never read back from
    the engine): engulf_tool(x) binds the key x.name as it reads at that moment, register_function(n, ...) binds n, an
    assignment to the public `tools` dict binds the assigned key. Several keys may hold the same Rec."""
    __slots__ = ("mito", "allowed", "recs", "reg", "last", "nucleus", "opts", "steps")


class _Null:
    def write(self, _s):
        return 0

    def flush(self):
        pass


_NULL = _Null()
_CONTAINERS = {"set": set, "frozenset": frozenset, "list": list, "tuple": tuple}


def caps(names):
    return {CAP[n] if n in CAP else n[2:] for n in names}


def cap_list(names):
    return [CAP[n] if n in CAP else n[2:] for n in names]


def make_tool(name, style, req):
    """-> (counter object, what to hand to engulf_tool / `tools=`, or None when register_function is to be used)"""
    if style == "required":
        obj = ReqTool(name, caps(req))
    elif style == "capabilities":
        obj = CapTool(name, cap_list(req))
    elif style == "none":
        obj = BareTool(name)
    elif style == "prop":
        obj = PropTool(name, caps(req))
    elif style.startswith("required-") and style[9:] in _CONTAINERS:
        obj = FormTool(name, {"required_capabilities": _CONTAINERS[style[9:]](cap_list(req))})
    elif style.startswith("capabilities-") and style[13:] in _CONTAINERS:
        obj = FormTool(name, {"capabilities": _CONTAINERS[style[13:]](cap_list(req))})
    elif style == "both":
        obj = FormTool(name, {"required_capabilities": caps(req), "capabilities": cap_list(req)})
    elif style == "required-none":
        if req:
            raise common.HarnessError("required-none declares nothing")
        obj = FormTool(name, {"required_capabilities": None})
    elif style in ("register", "simpletool"):
        obj = BareTool(name)  # only its counter/body is used: the engine's SimpleTool wraps obj.execute
        if style == "register":
            return obj, None
        return obj, SimpleTool(name=name, description="fn", func=obj.execute, required_capabilities=caps(req))
    else:
        raise common.HarnessError(f"unknown declaration style {style}")
    return obj, obj


def _new_rec(st, name, style, req, obj, holder=None, key=None):
    rec = Rec()
    rec.name, rec.style, rec.req, rec.obj, rec.holder = name, style, frozenset(req), obj, holder
    rec.attr = "capabilities" if style.startswith("capabilities") else (None if style in ("none", "required-none") else "required_capabilities")
    st.recs.append(rec)
    st.reg[name if key is None else key] = rec
    return rec


def registered(st, rec):
    return any(r is rec for r in st.reg.values())


def build_state(allowed, opts=None, ctor=()):
    """opts: overrides of BASE_OPTS; ctor: [(name, style, req)] registered through the constructor's `tools=`"""
    o = dict(BASE_OPTS)
    o.update(opts or {})
    st = St()
    st.allowed = None if allowed is None else frozenset(allowed)
    st.recs = []
    st.reg = {}
    st.last = ("init",)
    st.nucleus = None
    st.opts = o
    st.steps = 0
    handed = []
    for name, style, req in ctor:
        obj, engulfable = make_tool(name, style, req)
        if engulfable is None:  # what register_function would build
            engulfable = SimpleTool(name=name, description="fn", func=obj.execute, required_capabilities=caps(req))
        _new_rec(st, name, style, req, obj, engulfable)
        handed.append(engulfable)
    a = None if allowed is None else _CONTAINERS[o["container"]](caps(allowed))
    st.mito = Mitochondria(timeout_seconds=o["timeout"], max_ros=o["max_ros"], tools=handed or None,
                           allowed_capabilities=a, silent=o["silent"])
    return st


def register(st, name, style, req, share_from=None):
    """share_from: another state whose currently registered tool object `name` is engulfed here as well"""
    if share_from is not None:
        src = current(share_from, name)
        st.mito.engulf_tool(share_from.mito.tools[name])
        return _new_rec(st, name, src.style, src.req, src.obj, share_from.mito.tools[name])
    obj, engulfable = make_tool(name, style, req)
    if engulfable is None:
        st.mito.register_function(name, obj.execute, description="fn", required_capabilities=caps(req))
        engulfable = st.mito.tools.get(name)  # the engine's own wrapper: the only way to get hold of that object
    else:
        st.mito.engulf_tool(engulfable)
    return _new_rec(st, name, style, req, obj, engulfable)


def current(st, name):
    """the tool the observer bound to the key `name` last (None: the observer never bound that key)"""
    return st.reg.get(name)


def disallowed(st, rec):
    return st.allowed is not None and not rec.req <= st.allowed


def judge_counters(st, before, entry):
    v = []
    for rec, b in zip(st.recs, before):
        a = rec.count()
        if a != b and disallowed(st, rec):
            v.append((f"executed-disallowed:{entry}" + ("" if registered(st, rec) else ":replaced-tool"),
                      f"tool {rec.name!r} declared via {rec.style} requiring {sorted(rec.req)} ran {a - b}x although the engine "
                      f"only allows {sorted(st.allowed)}"))
    return v


# ---- generic, name-independent fingerprint of an object's state (engine A's canonical key) ----------------------
_OPAQUE = "<opaque>"


def _num(v):
    if isinstance(v, float) and v.is_integer():  # max(0, x) style code turns 0.0 into 0: the same value
        v = int(v)
    return ("num", repr(v))


def _atom(v, stack):
    """hashable by-value form of `v` as ONE leaf (used for set members, dict keys and callables' owners)"""
    out = {}
    _flatten(v, (), out, stack)
    return tuple(sorted((repr(p), leaf) for p, leaf in out.items()))


def _flatten(v, path, out, stack):
    """out[path] = leaf for every scalar reachable from v through containers / instance attributes, by value.
    Objects are told apart by type, never by address; harness-owned probe tools are leaves (their counters are the
    observation, not engine state)."""
    if v is None or isinstance(v, (bool, str, bytes)):
        out[path] = (type(v).__name__, v)
    elif isinstance(v, enum.Enum):
        out[path] = ("enum", type(v).__name__, v.name)
    elif isinstance(v, (int, float, complex)):
        out[path] = _num(v)
    elif isinstance(v, (datetime.datetime, datetime.date, datetime.time, datetime.timedelta)):
        out[path] = ("time-value",)
    elif isinstance(v, _ToolBase):
        out[path] = ("probe-tool", type(v).__name__, v.name)
    elif id(v) in stack:
        out[path] = ("cycle",)
    elif isinstance(v, (types.MethodType,)):
        out[path] = ("method", getattr(v.__func__, "__qualname__", "?"), _atom(v.__self__, stack | {id(v)}))
    elif isinstance(v, (types.FunctionType, types.BuiltinFunctionType, type)) or callable(v) and not hasattr(v, "__dict__"):
        out[path] = ("callable", getattr(v, "__module__", None), getattr(v, "__qualname__", type(v).__name__))
    else:
        stack = stack | {id(v)}
        if isinstance(v, dict):
            keys = [("k:" + k) if isinstance(k, str) else repr(_atom(k, stack)) for k in v]
            out[path + ("#keys",)] = ("keys", tuple(keys))  # insertion order is observable (listings)
            for k, x in zip(keys, list(v.values())):
                _flatten(x, path + (k,), out, stack)
        elif isinstance(v, (list, tuple, collections.deque)):
            out[path + ("#len",)] = ("len", len(v))
            for i, x in enumerate(list(v)):
                _flatten(x, path + (i,), out, stack)
        elif isinstance(v, (set, frozenset)):
            out[path] = ("set", tuple(sorted(repr(_atom(x, stack)) for x in v)))
        else:
            attrs = None
            if dataclasses.is_dataclass(v) or hasattr(v, "__dict__"):
                attrs = dict(getattr(v, "__dict__", {}))
            for cls in type(v).__mro__:
                slots = cls.__dict__.get("__slots__", ())
                for sname in ((slots,) if isinstance(slots, str) else slots):
                    if sname not in ("__dict__", "__weakref__") and hasattr(v, sname):
                        attrs = attrs if attrs is not None else {}
                        attrs[sname] = getattr(v, sname)
            out[path + ("#type",)] = ("type", type(v).__name__)
            if attrs is None or type(v).__module__ in ("_thread", "threading"):  # locks, events, threads, C objects: by type
                out[path] = (_OPAQUE,)
            else:
                for k in sorted(attrs):
                    _flatten(attrs[k], path + (k,), out, stack)


def flatten(obj):
    out = {}
    _flatten(obj, (), out, frozenset())
    return out


def _under(path, prefixes):
    return any(path[:i] in prefixes for i in range(1, len(path) + 1)) if prefixes else False


_VOLATILE = None


def volatile_paths():
    """Which parts of an engine's state are mere activity statistics is decided by behaviour, not by name: requests that
    involve no tool and no registration at all (arithmetic, a failing expression, an unknown name, a literal) run on a fresh
    engine; every NUMERIC leaf they change (counters, accumulated efficiency / ROS, timings), every sequence whose length
    they change (logs) and every leaf that differs between two identical runs (clock readings, ids) is volatile."""
    global _VOLATILE
    if _VOLATILE is not None:
        return _VOLATILE

    def probe():
        st = build_state(["NET"])
        f0 = flatten(st.mito)
        m = st.mito
        for call in (lambda: m.metabolize("1+1"), lambda: m.metabolize("1/0"), lambda: m.metabolize("zz()"),
                     lambda: m.metabolize("[1]"), lambda: m.metabolize("1 and 2"), lambda: m.metabolize("zz()", PW["tool"]),
                     lambda: m.digest_glucose("2"), lambda: m.execute_tool_call(ToolCall(id="c0", name="zz", arguments={})),
                     lambda: m.metabolize("1+1")):
            try:
                call()
            except Exception:  # noqa: BLE001 - totality is not this property
                pass
        return f0, flatten(m)

    (a0, a1), (_b0, b1) = probe(), probe()
    vol = set()
    for p in set(a0) | set(a1) | set(b1):
        x0, x1, y1 = a0.get(p), a1.get(p), b1.get(p)
        if x1 != y1:
            vol.add(p)  # not even reproducible
        elif x0 != x1:
            if p and p[-1] == "#len":
                vol.add(p[:-1])
            elif (x0 is None or x0[0] == "num") and (x1 is None or x1[0] == "num"):
                vol.add(p)
    _VOLATILE = frozenset(vol)
    return _VOLATILE


def public_health(mito):
    """what the dropped statistics mean for future behaviour, as the engine itself reports it publicly"""
    try:
        stats = mito.get_statistics()
        return ("health", repr(stats.get("health")) if isinstance(stats, dict) else type(stats).__name__)
    except Exception as e:  # noqa: BLE001
        return ("health-raised", type(e).__name__)


class ScriptedProvider:
    """LLM provider whose tool requests are dictated round by round by `next_round(i) -> [tool names]`"""
    name = "scripted"

    def __init__(self, next_round):
        self.next_round = next_round
        self.rounds = 0
        self.offered = []

    def is_available(self):
        return True

    def complete(self, prompt, config=None):
        return LLMResponse(content="final", model="scripted", tokens_used=1, latency_ms=0.0)

    def complete_with_tools(self, prompt, tools, config=None):
        self.offered.append([t.name for t in tools])
        names = self.next_round(self.rounds)
        r = self.rounds
        self.rounds += 1
        calls = [ToolCall(id=f"c{r}_{j}", name=n, arguments={}) for j, n in enumerate(names)]
        return LLMResponse(content="" if calls else "done", model="scripted", tokens_used=1, latency_ms=0.0), calls


def llm_loop(st, next_round, auto, max_iter, config=None, shared=False):
    """run Nucleus.transcribe_with_tools against st.mito; -> (violations, requested names, results seen)
    shared: one Nucleus (and provider) lives as long as the state and serves all its loops"""
    seen = []
    orig = st.mito.execute_tool_call

    def spy(call):
        r = orig(call)
        seen.append((call.name, bool(r.success)))
        return r

    requested = []

    def rounds(i):
        names = next_round(i)
        requested.extend(names)
        return names

    before = [r.count() for r in st.recs]
    targets = dict(st.reg)
    st.mito.execute_tool_call = spy  # observe ToolResult.success of the calls the loop makes
    try:
        if shared:
            if st.nucleus is None:
                st.nucleus = Nucleus(provider=ScriptedProvider(rounds))
            nuc = st.nucleus
            nuc.provider.next_round, nuc.provider.rounds = rounds, 0
        else:
            nuc = Nucleus(provider=ScriptedProvider(rounds))
        nuc.transcribe_with_tools("use the tools", st.mito, config=config, max_iterations=max_iter, auto_execute=auto)
    except Exception as e:  # noqa: BLE001
        v = [(f"raises:llm-loop:{type(e).__name__}", f"transcribe_with_tools raised {type(e).__name__}: {e}")]
        return v + judge_counters(st, before, "llm-loop"), requested, seen
    finally:
        del st.mito.__dict__["execute_tool_call"]
    v = judge_counters(st, before, "llm-loop")
    for name, success in seen:
        rec = targets.get(name)
        if rec is not None and disallowed(st, rec) and success:
            v.append(("disallowed-call-reported-success:llm-loop",
                      f"ToolResult.success is True for {name!r} requiring {sorted(rec.req)} under allowed {sorted(st.allowed)}"))
    return v, requested, seen


class Model:
    def __init__(self, tier):
        self.tier = tier
        self.names = ["t0", "t1"] + (["t2"] if tier == "thorough" else [])
        self.met = MET_THOROUGH if tier == "thorough" else MET_QUICK

    def roots(self):
        return list(ALLOWED)

    def build(self, root):
        return build_state(root)

    def ops(self, st):
        o = []
        for n in self.names:
            for style, req in (DECLS_T2 if n == "t2" else DECLS):
                o.append(("reg", n, style, list(req)))
        for n in self.names[:2] + ["zz"]:
            for pw, shape in self.met:
                o.append(("met", n, pw, shape))
            o.append(("dig", n))
        for n in ETC_NAMES:
            o.append(("etc", n, 0))
            if n in self.names or n == "zz":
                o.append(("etc", n, 1))
        for i in range(len(LLM_SCRIPTS)):
            o.append(("llm", i, True))
            o.append(("llm", i, False))
        for w in INTRO:
            o.append(("intro", w))
        return o

    def canon(self, st):
        cur = {k: (r.style, tuple(sorted(r.req))) for k, r in st.reg.items()}
        order = tuple((n, cur.get(n)) for n in st.mito.tools)  # registration order kept by the engine
        if set(cur) != set(st.mito.tools):
            raise common.HarnessError(f"reference registry {sorted(cur)} != engine registry {sorted(st.mito.tools)}")
        # the engine's whole instance state, by value and without knowing any attribute name (e.g. a decision cache added
        # later keeps states apart); only activity statistics (see volatile_paths) are dropped - what they mean for the
        # engine's behaviour is taken from its public report instead
        vol = volatile_paths()
        flat = flatten(st.mito)
        state = tuple(sorted((repr(p), leaf) for p, leaf in flat.items() if not _under(p, vol)))
        return (order, public_health(st.mito), state)

    def observe(self, st):
        return repr(st.last)

    def step(self, st, op):
        kind = op[0]
        before = [r.count() for r in st.recs]
        if kind == "reg":
            _, name, style, req = op
            register(st, name, style, req)
            st.last = ("reg", style)
            return judge_counters(st, before + [0], "registration")
        if kind == "met":
            _, name, pw, shape = op
            other = "t1" if name == "t0" else "t0"
            text = SHAPES[shape].format(n=name, o=other, N=name.upper())
            entry = f"metabolize:{pw}"
            try:
                res = st.mito.metabolize(text, PW[pw])
                success = bool(res.success)
            except Exception as e:  # noqa: BLE001 - totality is C01's property; here a raise is a refusal
                success = False
                st.last = ("met", pw, shape, "raised", type(e).__name__)
            v = judge_counters(st, before, entry)
            rec = current(st, name)
            ran = rec is not None and rec.count() != before[st.recs.index(rec)]
            if rec is not None and disallowed(st, rec) and success:
                v.append((f"disallowed-call-reported-success:{entry}",
                          f"metabolize({text!r}) reports success although {name!r} requires {sorted(rec.req)} and only "
                          f"{sorted(st.allowed)} is allowed"))
            st.last = ("met", pw, shape, "no-tool" if rec is None else ("disallowed" if disallowed(st, rec) else "allowed"),
                       "ran" if ran else "not-run", success)
            return v
        if kind == "etc":
            _, name, withargs = op
            entry = "execute_tool_call"
            try:
                res = st.mito.execute_tool_call(ToolCall(id="c1", name=name, arguments={"k": 2} if withargs else {}))
                success = bool(res.success)
            except Exception as e:  # noqa: BLE001
                success = False
                st.last = ("etc", "raised", type(e).__name__)
            v = judge_counters(st, before, entry)
            rec = current(st, name)
            ran = rec is not None and rec.count() != before[st.recs.index(rec)]
            if rec is not None and disallowed(st, rec) and success:
                v.append((f"disallowed-call-reported-success:{entry}",
                          f"ToolResult.success is True for {name!r} requiring {sorted(rec.req)} under allowed {sorted(st.allowed)}"))
            st.last = ("etc", "no-tool" if rec is None else ("disallowed" if disallowed(st, rec) else "allowed"),
                       "ran" if ran else "not-run", success)
            return v
        if kind == "llm":
            _, si, auto = op
            script = LLM_SCRIPTS[si]
            v, requested, seen = llm_loop(st, lambda i: script[i] if i < len(script) else [], bool(auto), 3)
            st.last = ("llm", bool(auto), tuple(seen))
            return v
        if kind == "llmx":  # engine D: the script is spelled out; max_iterations / config vary; the state's own Nucleus
            _, script, auto, max_iter, cfg = op
            script = [list(r) for r in script]
            v, requested, seen = llm_loop(st, lambda i: script[i] if i < len(script) else [], bool(auto), int(max_iter),
                                          config=ProviderConfig(temperature=0.0, max_tokens=16) if cfg else None, shared=True)
            asked = [current(st, n) for n in requested]
            status = "no-tool" if not any(asked) else (
                "disallowed" if any(r is not None and disallowed(st, r) for r in asked) else "allowed")
            st.last = ("llmx", bool(auto), int(max_iter), bool(cfg), status, tuple(seen))
            return v
        if kind == "dig":
            _, name = op
            entry = "digest_glucose"
            text = f"{name}()"
            try:
                out = st.mito.digest_glucose(text)
                success = not str(out).startswith("Metabolic Failure")
            except Exception as e:  # noqa: BLE001 - a raise is a refusal
                success = False
            v = judge_counters(st, before, entry)
            rec = current(st, name)
            ran = rec is not None and rec.count() != before[st.recs.index(rec)]
            if rec is not None and disallowed(st, rec) and success:
                v.append((f"disallowed-call-reported-success:{entry}",
                          f"digest_glucose({text!r}) does not report a failure although {name!r} requires {sorted(rec.req)} and "
                          f"only {sorted(st.allowed)} is allowed"))
            st.last = ("dig", "no-tool" if rec is None else ("disallowed" if disallowed(st, rec) else "allowed"),
                       "ran" if ran else "not-run", success)
            return v
        if kind == "intro":  # not a request for any tool: nothing may run (only disallowed tools are judged)
            _, which = op
            try:
                getattr(st.mito, which)()
                st.last = ("intro", which, "ok")
            except Exception as e:  # noqa: BLE001
                st.last = ("intro", which, "raised", type(e).__name__)
            return judge_counters(st, before, which)
        raise common.HarnessError(f"unknown op {op!r}")


# ---- engine A, second model: identity / aliasing between registry keys and tool objects ------------------------
# The statement speaks about "a registered tool" and "its declared required capabilities": the tool is the OBJECT bound
# to the requested key, its declaration is what that object declares when the request is made. Everything that can make
# a key, the bound object's own `name` and the declaration drift apart through the public surface is an operation here:
#   reg       engulf_tool / register_function of a fresh object (re-binds the key)
#   relabel   assign another name to the object bound to a key (nothing is re-registered)
#   reengulf  engulf_tool(the object bound to a key) again: binds the key it is labelled with NOW (two keys, one object)
#   redeclare change the declaration of the object bound to a key (new container / same container mutated in place /
#             moved to the other declaration attribute)
#   alias     tools[dst] = the object bound to src (the registry is a public dict)
#   direct    tools[key] = a fresh object labelled objname (equal to the key or not)
# plus one request per entry point per key. Judged by the same oracle as everywhere: the recorder inside the body that
# ran belongs to an object whose current declaration is out of bounds => violation; a request for a key bound to such an
# object must report failure.
ID_NAMES = ["t0", "t1"]
ID_DECLS = [("required", []), ("required", ["MONEY"]), ("capabilities", ["NET"]), ("register", []), ("register", ["MONEY"]),
            ("prop", ["MONEY"]), ("none", [])]
ID_DECLS_THOROUGH = ID_DECLS + [("capabilities", ["MONEY"]), ("simpletool", ["NET"]), ("prop", []), ("required-frozenset", ["NET", "MONEY"])]
ID_DIRECT = [("required", ["MONEY"]), ("simpletool", []), ("prop", ["NET"])]
ID_REDECL = [[], ["MONEY"]]
ID_OPTS = [(("silent", False),), (("timeout", 0),), (("max_ros", 1.0),), (("container", "frozenset"),)]
_DECL_ATTRS = ("required_capabilities", "capabilities")


def _decl_value_fp(holder, attr):
    try:
        v = getattr(holder, attr)
    except AttributeError:
        return ("absent",)
    if v is None:
        return ("None",)
    try:
        return (type(v).__name__, tuple(sorted(c.name if isinstance(c, Capability) else repr(c) for c in v)))
    except TypeError:
        return (type(v).__name__, "?")


def _inplace_ok(rec):
    return rec.attr is not None and rec.holder is not None and isinstance(getattr(rec.holder, rec.attr, None), (set, list))


class IdentityModel(Model):
    def __init__(self, tier, depth):
        super().__init__(tier)
        self.thorough = tier == "thorough"
        self.depth = depth
        self.decls = ID_DECLS_THOROUGH if self.thorough else ID_DECLS

    def roots(self):
        opts = [()] + (ID_OPTS if self.thorough else [])
        # {NET} and {NET, READ_FS} judge this alphabet's declarations alike: the quick tier keeps one of them
        return [[a, [list(kv) for kv in o]] for a in (RESTRICTED if self.thorough else RESTRICTED[:2]) for o in opts]

    def build(self, root):
        allowed, opts = root
        with contextlib.redirect_stdout(_NULL):
            return build_state(allowed, {k: v for k, v in opts})

    def ops(self, st):
        o = []
        if st.steps < self.depth - 1:  # the last operation of a history of maximal length is a request: nothing judges a
            o = self.binding_ops(st)   # binding made there (calls change no canonical state, so they are never "in the way")
        return o + self.request_ops()

    def binding_ops(self, st):
        o = [("reg", n, style, list(req)) for n in ID_NAMES for style, req in self.decls]
        for k, rec in st.reg.items():
            o += [("relabel", k, n) for n in ID_NAMES]
            o.append(("reengulf", k))
            for how in ("replace", "inplace", "switch"):
                if how != "inplace" or _inplace_ok(rec):
                    o += [("redeclare", k, how, list(r)) for r in ID_REDECL]
            o += [("alias", dst, k) for dst in ID_NAMES if dst != k]
        o += [("direct", k, n, style, list(req)) for k in ID_NAMES for n in ID_NAMES for style, req in ID_DIRECT]
        return o

    def request_ops(self):
        o = []
        for n in ID_NAMES:
            o += [("met", n, "auto", "call"), ("met", n, "tool", "args"), ("met", n, "auto", "arg-of-other"), ("dig", n),
                  ("etc", n, 0), ("etc", n, 1)]
            if self.thorough:
                o += [("met", n, pw, sh) for pw, sh in MET_QUICK if (pw, sh) not in (("auto", "call"), ("tool", "args"), ("auto", "arg-of-other"))]
        o += [("llm", 0, True), ("llm", 1, True), ("llm", 2, True), ("llm", 2, False), ("intro", "list_tools"), ("intro", "export_tool_schemas")]
        return o

    def registry_view(self, st):
        """(reference registry, the engine's public registry) as key -> index of the bound OBJECT, by identity"""
        idx = {}
        ref = []
        for k, rec in st.reg.items():
            ref.append((k, idx.setdefault(id(rec), len(idx))))
        eng = []
        for k, t in st.mito.tools.items():
            i = [idx[id(r)] for r in st.reg.values() if r.holder is t]
            eng.append((k, i[0] if i else "unknown-object"))
        return tuple(ref), tuple(eng)

    def canon(self, st):
        ref, eng = self.registry_view(st)
        objs = tuple((k, i, type(rec.holder).__name__, getattr(rec.holder, "name", None), rec.attr, tuple(sorted(rec.req)),
                      tuple(_decl_value_fp(rec.holder, a) for a in _DECL_ATTRS))
                     for (k, i), rec in zip(ref, st.reg.values()))
        vol = volatile_paths()
        flat = flatten(st.mito)
        state = tuple(sorted((repr(p), leaf) for p, leaf in flat.items() if not _under(p, vol)))
        return (objs, eng, public_health(st.mito), state)

    def step(self, st, op):
        st.steps += 1
        with contextlib.redirect_stdout(_NULL):  # silent=False engines narrate on stdout
            v = self._step(st, op)
        ref, eng = self.registry_view(st)
        if ref != eng and not v:
            # the engine's public registry is not what the public calls made so far bind: nothing the statement forbids by
            # itself, but the reference is then no basis for "the request names a registered disallowed tool"
            st.last = ("registry-mismatch", repr(ref), repr(eng))
        return v

    def _step(self, st, op):
        kind = op[0]
        if kind in ("met", "dig", "etc", "llm", "intro"):
            return super().step(st, op)
        before = [r.count() for r in st.recs]
        if kind == "reg":
            _, name, style, req = op
            register(st, name, style, req)
            st.last = ("id", "reg", style)
            return judge_counters(st, before + [0], "registration")
        if kind == "direct":
            _, key, objname, style, req = op
            obj, engulfable = make_tool(objname, style, req)
            st.mito.tools[key] = engulfable
            _new_rec(st, objname, style, req, obj, engulfable, key=key)
            st.last = ("id", "direct", style, key == objname)
            return judge_counters(st, before + [0], "registration")
        rec = st.reg.get(op[1] if kind != "alias" else op[2])
        if rec is None or rec.holder is None:
            st.last = ("id", kind, "not-applicable")
            return []
        h = rec.holder
        if kind == "relabel":
            h.name = op[2]
            st.last = ("id", "relabel", op[1] == op[2])
        elif kind == "reengulf":
            label = h.name
            st.mito.engulf_tool(h)
            st.reg[label] = rec
            st.last = ("id", "reengulf", label == op[1])
        elif kind == "alias":
            st.mito.tools[op[1]] = h
            st.reg[op[1]] = rec
            st.last = ("id", "alias")
        elif kind == "redeclare":
            _, _key, how, req = op
            new = cap_list(req)
            attr = rec.attr or "required_capabilities"
            cur = getattr(h, attr, None)
            if how == "inplace":
                if not _inplace_ok(rec):
                    raise common.HarnessError(f"in-place redeclaration is not enabled for {rec.style}")
                cur.clear()
                (cur.update if isinstance(cur, set) else cur.extend)(new)
            else:
                if how == "switch":
                    if rec.attr is not None:
                        setattr(h, rec.attr, None)  # "attribute present but None": declares nothing there
                    attr = "capabilities" if rec.attr in (None, "required_capabilities") else "required_capabilities"
                    cur = None
                ctype = type(cur) if isinstance(cur, (set, frozenset, list, tuple)) else (list if attr == "capabilities" else set)
                setattr(h, attr, ctype(new))
                rec.attr = attr
            rec.req = frozenset(req)
            st.last = ("id", "redeclare", how, disallowed(st, rec))
        else:
            raise common.HarnessError(f"unknown op {op!r}")
        return judge_counters(st, before, kind)


# ---- engine B ---------------------------------------------------------------------------------------
ROUND_OPTIONS = [[], ["t0"], ["t1"], ["zz"], ["t0", "t1"], ["t1", "t1"]]


def make_run(allowed_idx, decl0_idx, max_iter):
    def run(ch):
        st = build_state(ALLOWED[allowed_idx])
        register(st, "t0", *DECLS[decl0_idx])
        d1 = ch.pick(len(DECLS) + 1, "t1-decl")
        if d1:
            register(st, "t1", *DECLS[d1 - 1])
        rr = ch.pick(len(DECLS) + 1, "t0-reregister")
        if rr:
            register(st, "t0", *DECLS[rr - 1])
        auto = ch.pick(2, "auto_execute") == 0
        v, requested, seen = llm_loop(st, lambda i: ROUND_OPTIONS[ch.pick(len(ROUND_OPTIONS), f"round{i}")], auto, max_iter)
        targets = dict(st.reg)
        asked_disallowed = any(n in targets and disallowed(st, targets[n]) for n in requested)
        ran_allowed = any(s for n, s in seen if n in targets and not disallowed(st, targets[n]))
        obs = (auto, len(requested), asked_disallowed, ran_allowed, tuple(sorted(set(s for _n, s in seen))))
        return v, obs, asked_disallowed
    return run


def _b_root(arg):
    allowed_idx, decl0_idx, max_iter, max_dev = arg
    run = make_run(allowed_idx, decl0_idx, max_iter)
    n = 0
    nontrivial = 0
    outcomes = set()
    viol = {}
    for ch, res in choice.explore(run, max_dev=max_dev, horizon=64):
        n += 1
        if res and res[0] == "too-many-choices":
            raise common.HarnessError(f"engine B scenario did not terminate: {res}")
        v, obs, asked = res
        outcomes.add(obs)
        nontrivial += bool(asked)
        for key, what in v:
            lab = [list(x) for x in ch.labelled()]
            rank = (len(lab), repr(lab))
            cur = viol.get(key)
            if cur is None:
                viol[key] = [1, rank, what, lab]
            else:
                cur[0] += 1
                if rank < cur[1]:
                    cur[1], cur[2], cur[3] = rank, what, lab
    return n, nontrivial, outcomes, viol


# ---- engine D ---------------------------------------------------------------------------------------
_STEP = Model("quick")  # only its step() is used


def scenario(sc):
    """sc = (opts, allowed, A | None, prefix, B, judged op) -> (violations, observation, judged something?)

    The engine is built with `opts`; t0 is registered with declaration A (B when A is None) - through the constructor
    when opts say so -, the prefix runs, B replaces A under the same name (when A is given), then the judged request.
    Every step is judged by the same oracle as in engine A."""
    opts, allowed, a_decl, prefix, b_decl, judged = sc
    opts = {k: v for k, v in opts}
    allowed = None if allowed is None else list(allowed)
    first = b_decl if a_decl is None else a_decl
    pk = prefix[0]
    initial = [("t0", first[0], list(first[1]))]
    if pk == "call" and prefix[1] == "t1":
        initial.append(("t1", first[0], list(first[1])))
    v = []
    if opts.get("via") == "ctor":
        st = build_state(allowed, opts, ctor=initial)
        v += judge_counters(st, [0] * len(st.recs), "constructor")
    else:
        st = build_state(allowed, opts)
        for name, style, req in initial:
            v += _STEP.step(st, ("reg", name, style, req))
    st2 = None
    if pk == "call":
        v += _STEP.step(st, CALL_KINDS[prefix[2]](prefix[1]))
    elif pk == "intro":
        v += _STEP.step(st, ("intro", prefix[1]))
    elif pk in ("other", "shared"):
        # a second engine of the same process that allows everything (or is unrestricted) knows the name t0 too:
        # "other" = its own tool object declared like A, "shared" = the very object that B then registers in `st`
        o2 = {k: x for k, x in opts.items() if k != "via"}
        st2 = build_state(None if prefix[1] == "none" else ALL_CAPS, o2)
        d2 = first if pk == "other" else b_decl
        before = [r.count() for r in st.recs]
        v += _STEP.step(st2, ("reg", "t0", d2[0], list(d2[1])))
        v += _STEP.step(st2, CALL_KINDS[prefix[2]]("t0"))
        v += judge_counters(st, before, "call-on-another-engine")
    if a_decl is not None:
        if pk == "shared":
            before = [r.count() for r in st.recs] + [current(st2, "t0").count()]  # it ran legitimately over there
            register(st, "t0", None, None, share_from=st2)
            st.last = ("reg", "shared-object")
            v += judge_counters(st, before, "registration")
        else:
            v += _STEP.step(st, ("reg", "t0", b_decl[0], list(b_decl[1])))
    v += _STEP.step(st, tuple(judged))
    if set(st.reg) != set(st.mito.tools):
        raise common.HarnessError(f"reference registry != engine registry {sorted(st.mito.tools)} in scenario {sc!r}")
    judged_something = any(disallowed(st, r) for r in st.recs)
    obs = (tuple(sorted(opts)), pk, repr(st.last))
    return v, obs, judged_something


def _quiet_scenario(sc):
    with contextlib.redirect_stdout(_NULL):  # silent=False engines narrate on stdout
        return scenario(sc)


def d_entries(thorough):
    met = MET_THOROUGH if thorough else MET_QUICK
    return [("met", "t0", pw, shape) for pw, shape in met] + [("dig", "t0")] + \
           [("etc", n, 0) for n in ("t0", "T0", " t0")] + [("etc", "t0", 1)] + \
           [("llmx", s, auto, mi, cfg) for s in LLMX_SCRIPTS for auto in (True, False) for mi in (0, 1, 3) for cfg in (False, True)]


def d_blocks(thorough):
    """engine D's scenario space as a deterministic list of JSON-able blocks; a worker expands a block itself.

    D1 (every option combination x every declaration form x every entry point; one registration, one request):
        ("D1", thorough, opts, allowed)
    D2 (observer-defined histories: declaration A, prefix, re-registration as B, judged request - only histories in which A
    or B is out of bounds, otherwise the oracle has nothing to judge):
        ("D2", opts, allowed, A, "plain" | "forms")
        quick: one option off its default at a time x engine A's declarations ("plain"); thorough: all option combinations
        x those declarations, plus one-option-at-a-time x all declaration forms ("forms": the pairs not already listed)"""
    out = [("D1", thorough, opts, allowed) for opts in opt_combos(True) for allowed in RESTRICTED]
    for combos, decls, which in [(opt_combos(thorough), DECLS, "plain")] + ([(opt_combos(False), DECLS_X, "forms")] if thorough else []):
        out += [("D2", opts, allowed, a, which) for opts in combos for allowed in RESTRICTED for a in decls]
    return out


def expand_block(block):
    if block[0] == "D1":
        _, thorough, opts, allowed = block
        for decl in DECLS_X:
            for e in d_entries(thorough):
                yield (opts, allowed, None, ("none",), decl, e)
        return
    _, opts, allowed, a, which = block
    al = frozenset(allowed)
    judged = [CALL_KINDS[k]("t0") for k in CALL_KINDS]
    for b in (DECLS if which == "plain" else DECLS_X):
        if frozenset(a[1]) <= al and frozenset(b[1]) <= al:
            continue
        if which == "forms" and a in DECLS and b in DECLS:
            continue
        for prefix in PREFIXES:
            for j in judged:
                yield (opts, allowed, a, prefix, b, j)


def _d_block(block):
    n = nontrivial = 0
    outcomes = set()
    viol = {}
    guard = set()
    for sc in expand_block(block):
        v, obs, judged_something = _quiet_scenario(sc)
        n += 1
        nontrivial += bool(judged_something)
        outcomes.add(obs)
        if sc[2] is None:  # D1: per option combination, did an allowed tool run / was a disallowed one refused
            guard.add((sc[0], "'allowed', 'ran'" in obs[2], "'disallowed', 'not-run'" in obs[2]))
        for key, what in v:
            rank = (len(repr(sc)), repr(sc))
            cur = viol.get(key)
            if cur is None:
                viol[key] = [1, rank, what, sc]
            else:
                cur[0] += 1
                if rank < cur[1]:
                    cur[1], cur[2], cur[3] = rank, what, sc
    return n, nontrivial, outcomes, viol, guard


def run_engine_d(ctx, thorough):
    blocks = common.rotate(d_blocks(thorough), ctx.seed)
    n = nontrivial = 0
    merged = {}
    guard = set()
    for cn, cnon, outcomes, viol, g in common.pmap(_d_block, blocks):
        n += cn
        nontrivial += cnon
        guard |= g
        ctx.outcomes |= {("D",) + o for o in outcomes}
        for key, (cnt, rank, what, sc) in viol.items():
            cur = merged.get(key)
            if cur is None:
                merged[key] = [cnt, rank, what, sc]
            else:
                cur[0] += cnt
                if rank < cur[1]:
                    cur[1], cur[2], cur[3] = rank, what, sc
    for key in sorted(merged):
        cnt, _rank, what, sc = merged[key]
        for _ in range(cnt):
            ctx.report(key, f"scenario {sc!r}: {what}", {"engine": "D", "scenario": sc})
    for opts in opt_combos(True):
        ran = any(g[0] == opts and g[1] for g in guard)
        refused = any(g[0] == opts and g[2] for g in guard)
        if not refused or not ran:
            raise common.HarnessError(f"vacuous engine-D family for options {opts!r}: allowed-ran={ran} disallowed-refused={refused}")
    ctx.stats["D.scenarios"] += n
    ctx.sample({"engine": "D", "scenario": ((("via", "ctor"),), ["NET"], ("required", []), ("call", "t0", "etc"),
                                            ("capabilities", ["MONEY"]), ("etc", "t0", 0))})
    return {"scenarios": n, "judging_scenarios": nontrivial, "blocks": len(blocks), "option_combinations": len(opt_combos(True)),
            "declaration_forms": len(DECLS_X), "prefixes": len(PREFIXES)}


def run(ctx):
    thorough = ctx.tier == "thorough"
    model = Model(ctx.tier)
    depth = 5 if thorough else 4
    res = explore.explore(model, ctx, depth, validate_canon=200 if thorough else 40)
    id_depth = 5 if thorough else 4
    res_id = explore.explore(IdentityModel(ctx.tier, id_depth), ctx, id_depth, label="A-identity", validate_canon=200 if thorough else 40)
    mismatch = sorted(o for o in ctx.outcomes if isinstance(o, str) and o.startswith("('registry-mismatch'"))
    if mismatch:
        ctx.defer_harness_error("the engine's public registry differs from the bindings the public calls made: " + mismatch[0][:600])

    max_iter = 3 if thorough else 2
    max_dev = None if thorough else 3
    roots = [(a, d, max_iter, max_dev) for a in range(len(ALLOWED)) for d in range(len(DECLS))]
    b_exec = b_nontrivial = 0
    merged = {}
    rotated = common.rotate(roots, ctx.seed)
    for root, (n, nontrivial, outcomes, viol) in zip(rotated, common.pmap(_b_root, rotated)):
        b_exec += n
        b_nontrivial += nontrivial
        ctx.outcomes |= {("B",) + o for o in outcomes}
        for key, (cnt, rank, what, lab) in viol.items():
            rank = (rank, root[:2])
            cur = merged.get(key)
            if cur is None:
                merged[key] = [cnt, rank, what, lab, root]
            else:
                cur[0] += cnt
                if rank < cur[1]:
                    cur[1], cur[2], cur[3], cur[4] = rank, what, lab, root
    for key in sorted(merged):
        cnt, _rank, what, lab, root = merged[key]
        case = {"engine": "B", "root": [root[0], root[1]], "max_iter": root[2], "choices": lab}
        for _ in range(cnt):
            ctx.report(key, f"allowed={ALLOWED[root[0]]} t0={DECLS[root[1]]} choices={lab}: {what}", case)
    ctx.stats["B.executions"] += b_exec
    d = run_engine_d(ctx, thorough)
    d_exec = d["scenarios"]
    ran_allowed = any("'allowed', 'ran'" in o for o in ctx.outcomes if isinstance(o, str))
    refused = any("'disallowed', 'not-run'" in o for o in ctx.outcomes if isinstance(o, str))
    if not ran_allowed or not refused:
        raise common.HarnessError("vacuous exploration: no allowed tool ever ran or no disallowed tool was ever refused")
    ctx.sample({"root": ["NET"], "hist": [["reg", "t0", "required", ["MONEY"]]], "op": ["etc", "t0", 0]})
    ctx.sample({"engine": "B", "root": [1, 1], "max_iter": max_iter, "choices": [[0, "t1-decl"], [0, "t0-reregister"],
                                                                                 [0, "auto_execute"], [1, "round0"], [0, "round1"]]})
    ctx.coverage.update(
        states=res["states"] + res_id["states"],
        transitions=res["transitions"] + res_id["transitions"] + b_exec + d_exec,
        traces_validated_against_impl=res["transitions"] + res_id["transitions"] + b_exec + d_exec,
        evaluations=res["transitions"] + res_id["transitions"] + b_exec + d_exec,
        distinct_nontrivial=res["states"] + res_id["states"] + b_nontrivial + d["judging_scenarios"],
        rule="engine A: BFS over canonical states (allowed set; per tool name the declaration style and requirement of the "
        "currently registered tool, in registration order; the engine's whole instance state fingerprinted recursively by value "
        "without naming any attribute, minus the numeric leaves / logs that tool-less requests change on a fresh engine, plus "
        "the health the engine reports publicly) with every "
        "registration / re-registration / metabolize(text shape x pathway) / execute_tool_call / scripted LLM-loop operation "
        "applied in every reachable state; engine A, identity model: BFS over canonical states (per registry key the identity of "
        "the bound tool object, that object's type, own name, declaring attribute, container and declared requirement; the engine's "
        "registry by identity; the same by-value fingerprint of the engine) from an empty engine, with every binding operation "
        "(engulf_tool / register_function of a fresh object incl. one whose name and declaration are properties, assigning "
        "another name to a bound object, engulfing a bound object again, changing a bound object's declaration by a new "
        "container / in place / through the other attribute, tools[k] = a bound object, tools[k] = a fresh object named k or "
        "not) in every state reached by fewer than depth-1 operations and one request per entry point and key in every state; "
        "engine B: every answer sequence of the scripted provider (stop / t0 / t1 / unknown / "
        "two tools per round) after every (allowed set, t0 declaration, t1 declaration or none, t0 re-registration or none, "
        "auto_execute) prefix; engine D: the full product (constructor options silent / timeout_seconds / max_ros / allowed-set "
        "container / registration through tools=) x restricted allowed set x declaration form x entry point (text shapes, "
        "digest_glucose, structured call incl. near-miss names, LLM loop with max_iterations 0/1/3, config, auto_execute) for one "
        "registration, and every history (declaration A, prefix = call through any entry point to the same or another name / "
        "introspection / repair / call on another engine knowing the name or sharing the tool object, re-registration as B, "
        "judged request through each entry point) in which A or B is out of bounds; distinct_nontrivial = distinct canonical "
        "states + engine-B executions in which a currently disallowed tool was requested + distinct engine-D scenarios that "
        "contain an out-of-bounds tool",
        exhaustive=bool(res["fixpoint"]) and max_dev is None,
        fixpoint=res["fixpoint"],
        depth_completed=res["depth_completed"],
        engine_b={"executions": b_exec, "roots": len(roots), "max_iterations": max_iter, "max_deviations": max_dev,
                  "requests_for_disallowed_tool": b_nontrivial},
        engine_d=d,
        engine_a_identity={"states": res_id["states"], "transitions": res_id["transitions"], "depth_completed": res_id["depth_completed"],
                           "binding_operations_per_history": id_depth - 1, "roots": res_id["roots"]},
        allowed_sets=ALLOWED, declarations=len(DECLS), tool_names=model.names,
        entry_points=sorted({f"metabolize:{p}" for p, _ in model.met}) + ["digest_glucose", "execute_tool_call", "llm-loop"],
    )
    if max_dev is not None:
        ctx.coverage["caps_hit"] = (f"engine B bounded to {max_dev} non-default answers per scenario in the quick tier; engine D "
                                    "histories vary one constructor option at a time and use engine A's declarations in the quick tier")
    ctx.coverage["caps_hit"] = (ctx.coverage.get("caps_hit", "") + f"; identity model bounded to {id_depth - 1} binding operations per "
                                "history").lstrip("; ")
    if not res["fixpoint"]:
        ctx.coverage["caps_hit"] = (ctx.coverage.get("caps_hit", "") + f"; engine A depth {depth} reached with "
                                    f"{res['frontier_left']} frontier states left").lstrip("; ")
    ctx.assumptions += [
        "max_ros=1e9: the ROS latch (which only ever refuses more) never engages within the explored depth",
        "a tool declaring DIFFERENT requirements in `required_capabilities` and `capabilities` is not modelled (the statement "
        "does not say which one is 'the' declaration); the same requirement in both is",
        "activity statistics (numeric fields that requests involving no tool change: operation count, accumulated efficiency / "
        "ROS, timings) are not part of engine A's canonical state - found by behaviour, not by name; validate_canon samples it",
        "hidden state outside vars(engine) (module globals, closures, the tool object) is not part of engine A's "
        "canonical state; engine D therefore replays call / re-registration histories without any state merging",
        "a requirement given as a plain string is out of bounds for every allowed set of Capability members",
        "'a registered tool' is read as the object bound to the requested key of the engine's public registry (by engulf_tool, "
        "register_function or an assignment to the public `tools` dict) and 'its declared required capabilities' as what that "
        "object declares when the request is made; the key a tool was engulfed under is its `name` as read at that moment",
        "not asserted (the statement speaks of the set the engine was constructed with): replacing or mutating "
        "`allowed_capabilities` after construction; removing keys from the public `tools` dict",
    ]


def replay(ctx, case):
    if case.get("engine") == "D":
        return list(_quiet_scenario(case["scenario"])[0])
    if case.get("engine") == "B":
        root = case["root"]
        run_ = make_run(int(root[0]), int(root[1]), int(case["max_iter"]))
        _ch, res = choice.replay(run_, [tuple(x) for x in case["choices"]], horizon=64)
        return list(res[0])
    fixed = {"root": case["root"], "hist": [_fix(o) for o in case["hist"]], "op": _fix(case["op"])}
    if fixed["root"] is not None:
        fixed["root"] = list(fixed["root"])
    if fixed["root"] is not None and len(fixed["root"]) == 2 and not isinstance(fixed["root"][1], str) \
            and (fixed["root"][0] is None or not isinstance(fixed["root"][0], str)):
        # identity model: root = [allowed set, constructor options]; histories are never longer than its depth bound
        return explore.replay_case(IdentityModel(ctx.tier, len(fixed["hist"]) + 2), fixed)
    return explore.replay_case(Model(ctx.tier), fixed)


def _fix(op):
    return tuple(list(x) if isinstance(x, tuple) else x for x in op)
