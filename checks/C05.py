"""C05 — energy store operations are atomic under every thread interleaving.

Engine C: real threads running real ATP_Store methods under the controlled scheduler; every
source line of operon_ai/state/metabolism.py is a scheduling point, and so is the gap between two
lock acquisitions made by one line (sched.CoopLock: `with a, b:` is one source line but two
visible steps); the stores' threading.Lock/RLock is replaced by a scheduler-aware lock (same
mutual-exclusion semantics, blocking visible).

Oracles
* linearizability: the outcome (every call's return value + final balances/debt/state/state-change
  notifications of every store) must be one the *implementation itself* produces when the same
  calls run sequentially in some order consistent with each thread's program order. Every call the
  harness itself makes into the implementation (start-state setup, reference runs, end-state getters)
  is guarded: an exception is the value ("raised", class) of that call, a call that can never return
  or a failing setup call is a violation of its own (`call-hangs-sequentially`, `call-fails-sequentially`);
* the statement's explicit clauses, judged from the public call history only (independent of the
  implementation's sequential behaviour): balances never negative (at every scheduling point and
  as returned by any getter), debt within [0, max_debt], the sum of successful spends never
  exceeds what was available (start wealth + regenerated + debt taken), no deadlock, no livelock,
  no escaping exception (in the X / E families the user's own callback raises: there the exception is
  the call's expected result and must leave no lock behind).
Families with a state-change callback (G recording, X / E raising) contain every transfer || transfer pair (same
and opposite direction) under both creation orders of the two stores, with amounts that take the donor (X: also the
receiver) across a metabolic-state threshold - a notification issued anywhere inside the two-lock section is then
exercised with either store holding the lower lock rank.
Family K makes the construction of a store a scheduled step of its own: each thread constructs its store inside
its body (the constructor's source lines are scheduling points like any other line of metabolism.py), publishes it,
waits - visibly to the scheduler - until the stores its next call names exist, and then transfers (opposite / same
direction, a peer that existed before, non-default constructor options; thorough: a three-store ring built by three
threads). Whatever the constructor sets up for the two-lock section is thereby exercised under every interleaving of
two constructors; the sequential reference constructs the stores in each order.
Family W puts a third thread that works on ONE of the two stores next to two transfers between them (opposite / same
direction, both creation orders): one of the two locks can then be held by a thread that never asks for the other.
Library state: every harness exists in two variants, "warm" (the process - and every forked worker - has long created
other stores, as in any long-running program) and `...@fresh` (the harness's stores are the very FIRST objects the
library creates after being imported: module-level counters, registries and caches are in their initial state, so the
first / n-th created object is the one under test). A fresh run executes every schedule and every sequential
reference order in a fork of a server process that has just re-imported the library and constructed nothing
(common.fresh_call); the oracle is the same. The core two-store families (transfer || transfer pairs of P in both
creation orders, S5 / S5r, K, W) run from both states in the quick tier, every two-store harness in the thorough tier.
Not asserted (counted and noted instead): getters are lock-free single reads, so a value *read*
concurrently with a multi-write mutator may be an intermediate one; `apply_debt_interest` is not
one of the operations the statement lists and is unsynchronised in the code.
"""
from __future__ import annotations

import builtins
import contextlib
import io
import itertools
import sys
import traceback

from mc import common, sched

import operon_ai.state.metabolism as metab
from operon_ai.state.metabolism import ATP_Store, EnergyType

ET = {"ATP": EnergyType.ATP, "GTP": EnergyType.GTP, "NADH": EnergyType.NADH}
TRACE = (metab.__file__,)
GETTERS = ("get", "report")


def rebind_library():
    """called by common.fresh_call's server after it re-imported the library: this module's names for library
    objects must be those of the freshly imported modules"""
    global metab, ATP_Store, EnergyType, ET, TRACE
    import operon_ai.state.metabolism as m
    metab, ATP_Store, EnergyType = m, m.ATP_Store, m.EnergyType
    ET = {"ATP": EnergyType.ATP, "GTP": EnergyType.GTP, "NADH": EnergyType.NADH}
    TRACE = (m.__file__,)


# harness = (store configs {name: (budget,gtp,nadh,max_debt[,options])}, threads [[op,...],...])
#   options: silent (default True), cb (True: record on_state_change notifications; "raise": record, then raise
#   ValueError(); ("raise", class name, message or None): record, then raise that builtin exception), interest
#   (debt_interest)
# SETUP[name] = calls applied sequentially before the threads start (start state reached through the public API)
# OPTS[name]  = {"order": creation order of the stores ("_" = an unrelated store created in between; the
#                creation order fixes the global lock ranks), "advisory": non-sequential outcomes are only counted}
H = {
    "S1-consume-consume": ({"A": (5, 0, 0, 0)}, [[("consume", "A", 3, "ATP", False)], [("consume", "A", 3, "ATP", False)]]),
    "S2-consume-regenerate": ({"A": (4, 0, 0, 0)}, [[("consume", "A", 2, "ATP", False), ("consume", "A", 3, "ATP", False)],
                                                   [("regenerate", "A", 2, "ATP")]]),
    "S3-topup-convert": ({"A": (4, 0, 3, 0)}, [[("consume", "A", 3, "ATP", False), ("consume", "A", 3, "ATP", False)],
                                              [("convert", "A", 2)]]),
    "S4-debt-debt": ({"A": (2, 0, 0, 3)}, [[("consume", "A", 4, "ATP", True)], [("consume", "A", 3, "ATP", True)]]),
    "S5-opposite-transfers": ({"A": (3, 0, 0, 0), "B": (3, 0, 0, 0)},
                              [[("consume", "A", 1, "ATP", False), ("transfer", "A", "B", 2, "ATP")],
                               [("consume", "B", 1, "ATP", False), ("transfer", "B", "A", 2, "ATP")]]),
    "S6-transfer-consume": ({"A": (3, 0, 0, 0), "B": (2, 0, 0, 0)},
                            [[("transfer", "A", "B", 2, "ATP")], [("consume", "B", 2, "ATP", False), ("consume", "B", 2, "ATP", False)]]),
    "S7-three-threads": ({"A": (4, 0, 0, 0)}, [[("consume", "A", 3, "ATP", False)], [("consume", "A", 3, "ATP", False)],
                                               [("regenerate", "A", 2, "ATP")]]),
    "S8-transfer-vs-two-consumes": ({"A": (5, 0, 0, 0), "B": (5, 0, 0, 0)},
                                    [[("consume", "B", 5, "ATP", False), ("transfer", "A", "B", 5, "ATP")],
                                     [("consume", "A", 5, "ATP", False), ("consume", "B", 5, "ATP", False)]]),
    "S9-gtp-nadh-debt-mix": ({"A": (2, 2, 2, 2)}, [[("consume", "A", 3, "ATP", True), ("consume", "A", 2, "GTP", False)],
                                                   [("consume", "A", 2, "NADH", False), ("regenerate", "A", 1, "ATP")]]),
    "S10-self-transfer-and-regen": ({"A": (3, 0, 0, 0)}, [[("transfer", "A", "A", 2, "ATP")],
                                                         [("consume", "A", 3, "ATP", False), ("regenerate", "A", 1, "ATP")]]),
    "S11-dormancy-toggle": ({"A": (4, 0, 0, 0)}, [[("dormant_in", "A"), ("dormant_out", "A")], [("consume", "A", 2, "ATP", False)]]),
    # two real agents sharing one store, as a quorum / guard loop does (only metabolism.py lines are scheduling points)
    "S13-two-agents-express": ({"A": (10, 0, 0, 0)}, [[("express", "A", "Voter")], [("express", "A", "Executor")]]),
    "S14-three-agents-express": ({"A": (25, 0, 0, 0)}, [[("express", "A", "Voter")], [("express", "A", "Voter")],
                                                       [("express", "A", "RiskAssessor")]]),
    "S12-reset-vs-consume": ({"A": (3, 0, 0, 0)}, [[("consume", "A", 2, "ATP", False), ("reset", "A")], [("consume", "A", 2, "ATP", False)]]),
}
SETUP = {}
OPTS = {}

# --- lock ranks: the same opposite transfers with the stores created in the other order (and an unrelated store
# in between), and three-store transfer rings (every store is donor of one transfer and receiver of another) under
# the two non-equivalent rank orders (one / two ring edges against the rank order)
H["S5r-opposite-transfers-ranks-reversed"] = H["S5-opposite-transfers"]
OPTS["S5r-opposite-transfers-ranks-reversed"] = {"order": ("B", "_", "A")}
_RING = ({"A": (2, 0, 0, 0), "B": (2, 0, 0, 0), "C": (2, 0, 0, 0)},
         [[("transfer", "A", "B", 1, "ATP")], [("transfer", "B", "C", 1, "ATP")], [("transfer", "C", "A", 1, "ATP")]])
H["R1-transfer-ring"] = _RING
H["R2-transfer-ring-ranks-reversed"] = _RING
OPTS["R2-transfer-ring-ranks-reversed"] = {"order": ("C", "_", "B", "A")}
# the cheap variant (every donor is under-funded, so only lock acquisition + balance check run): quick tier
_RING0 = (_RING[0], [[op[:3] + (3,) + op[4:] for op in t] for t in _RING[1]])
H["R0-underfunded-ring"] = _RING0
H["R0r-underfunded-ring-ranks-reversed"] = _RING0
OPTS["R0r-underfunded-ring-ranks-reversed"] = OPTS["R2-transfer-ring-ranks-reversed"]


REVERSED = ("B", "_", "A")  # the second store created first, an unrelated store (one more lock rank) in between


def pair_family(prefix, cfg, setup, ops, opts=None, skip=None):
    """every unordered pair (with repetition) of the operation kinds, one kind per thread; a pair in which both
    threads work on two stores (transfer || transfer, same or opposite direction) is generated under both creation
    orders of the stores (`...@r`: the creation order fixes the lock ranks, so which of donor / receiver is locked
    first)"""
    out = []
    names = sorted(ops)
    two_store = {k for k in names if any(op[0] == "transfer" and op[1] != op[2] for op in ops[k])}
    for i, a in enumerate(names):
        for b in names[i:]:
            if skip and skip(a, b):
                continue
            for suffix, extra in (("", {}), ("@r", {"order": REVERSED})):
                if suffix and not (a in two_store and b in two_store):
                    continue
                n = f"{prefix}:{a}|{b}{suffix}"
                H[n] = (cfg, [ops[a], ops[b]])
                SETUP[n] = setup
                if opts or extra:
                    OPTS[n] = {**(opts or {}), **extra}
                out.append(n)
    return out


# --- P: systematic pair family: every unordered pair of operation kinds on a store in a "middle" state --------
# stores after SETUP: A = atp 2/4, nadh 3/3, debt 0/2 ; B = atp 2/3
PAIR_CFG = {"A": (4, 0, 3, 2), "B": (3, 0, 0, 0)}
PAIR_SETUP = [("consume", "A", 2, "ATP", False), ("consume", "B", 1, "ATP", False)]
PAIR_OPS = {
    "spend1": [("consume", "A", 1, "ATP", False)],
    "spend-topup": [("consume", "A", 3, "ATP", False)],
    "spend-debt": [("consume", "A", 6, "ATP", True)],
    "spend-nadh": [("consume", "A", 2, "NADH", False)],
    "regen": [("regenerate", "A", 2, "ATP")],
    "convert": [("convert", "A", 2)],
    "xfer-out": [("transfer", "A", "B", 2, "ATP")],
    "xfer-in": [("transfer", "B", "A", 2, "ATP")],
    "reset": [("reset", "A")],
    "dormancy": [("dormant_in", "A"), ("dormant_out", "A")],
}
PAIRS = pair_family("P", PAIR_CFG, PAIR_SETUP, PAIR_OPS)

# --- G: the same idea over all three currencies, from a debt-carrying start state, with the non-default
# constructor options (silent=False: the print branches run; on_state_change: notifications are part of the
# outcome) and with getters running concurrently with the mutators.
# stores after SETUP: A = atp 2/4, gtp 2/3, nadh 3/3, debt 1/3 (NORMAL) ; B = atp 2/4, gtp 2/3, nadh 2/3 (NORMAL)
# Both stores notify a recording callback, and the amounts are chosen such that the debit of every ATP / GTP
# transfer takes its donor across a metabolic-state threshold (A: xfer-out-gtp, B: xfer-in-*; measured in run():
# coverage["threshold_crossing_transfers"]), so a state refresh + notification anywhere inside a transfer is visible.
_GO = {"silent": False, "cb": True}
G_CFG = {"A": (4, 3, 3, 3, _GO), "B": (4, 3, 3, 0, _GO)}
G_SETUP = [("consume", "A", 4, "GTP", True), ("consume", "A", 2, "ATP", False), ("regenerate", "A", 2, "GTP"),
           ("consume", "B", 2, "ATP", False), ("consume", "B", 1, "GTP", False), ("consume", "B", 1, "NADH", False)]
G_OPS = {
    "spend-gtp": [("consume", "A", 1, "GTP", False)],
    "gtp-debt": [("consume", "A", 3, "GTP", True)],
    "nadh-debt": [("consume", "A", 4, "NADH", True)],
    "atp-topup-debt": [("consume", "A", 6, "ATP", True)],
    "regen-atp": [("regenerate", "A", 2, "ATP")],
    "regen-gtp": [("regenerate", "A", 2, "GTP")],
    "regen-nadh": [("regenerate", "A", 2, "NADH")],
    "convert": [("convert", "A", 2)],
    "xfer-out-gtp": [("transfer", "A", "B", 2, "GTP")],
    "xfer-out-nadh": [("transfer", "A", "B", 2, "NADH")],
    "xfer-in-atp": [("transfer", "B", "A", 2, "ATP")],
    "xfer-in-gtp": [("transfer", "B", "A", 2, "GTP")],
    "peek": [("get", "A", "ATP"), ("get", "A", "debt"), ("get", "A", "state")],
    "report": [("report", "A")],
}
_READ_ONLY = ("peek", "report")
GPAIRS = pair_family("G", G_CFG, G_SETUP, G_OPS, skip=lambda a, b: a in _READ_ONLY and b in _READ_ONLY)

# --- D: starving / dormant start states and the per-call `priority` option; the start state is reached through
# mutation after construction (max_debt assigned after __init__, a reset in the history).
# stores after SETUP: A = atp 0/4, debt 0/2, STARVING ; B = atp 2/3
D_CFG = {"A": (4, 0, 0, 0), "B": (3, 0, 0, 0)}
D_SETUP = [("set", "A", "max_debt", 2), ("consume", "A", 2, "ATP", False), ("reset", "A"),
           ("consume", "A", 4, "ATP", False), ("consume", "B", 1, "ATP", False)]
D_OPS = {
    "lowprio": [("consume", "A", 1, "ATP", True, 0)],
    "prio5": [("consume", "A", 1, "ATP", True, 5)],
    "prio5-big": [("consume", "A", 2, "ATP", True, 5)],
    "prio10": [("consume", "A", 1, "ATP", True, 10)],
    "regen": [("regenerate", "A", 2, "ATP")],
    "xfer-in": [("transfer", "B", "A", 2, "ATP")],
    "dormancy": [("dormant_in", "A"), ("dormant_out", "A")],
}
DPAIRS = pair_family("D", D_CFG, D_SETUP, D_OPS)

# --- I (advisory): apply_debt_interest next to the listed operations. The statement does not list it, so a
# non-sequential outcome is only counted; deadlock / exception / negative balance are still violations.
# store after SETUP: A = atp 0/4, gtp 4/4, debt 2/6, debt_interest 1.0
I_CFG = {"A": (4, 4, 0, 6, {"interest": 1.0})}
I_SETUP = [("consume", "A", 6, "ATP", True)]
I_OPS = {
    "interest": [("interest", "A")],
    "regen": [("regenerate", "A", 3, "ATP")],
    "spend-debt": [("consume", "A", 2, "ATP", True)],
}
IPAIRS = pair_family("I", I_CFG, I_SETUP, I_OPS, opts={"advisory": True}, skip=lambda a, b: "interest" not in (a, b))

# --- X: the state-change callback raises (an exception with an empty message) while the store's lock(s) are
# held: the lock must be released on that path too, and what the call did before notifying stays done. A call
# ending in the callback's exception is an expected return value here ("raised", class name).
# stores after SETUP: A = atp 2/4, debt 0/2 (NORMAL), callback raises on every change ; B = atp 2/3 (NORMAL),
# recording callback. Every transfer takes its donor and its receiver across a state threshold (A: 2 -> 1 conserving,
# 2 -> 4 feasting; B: 2 -> 0 starving, 2 -> 3 feasting).
X_CFG = {"A": (4, 0, 0, 2, {"cb": "raise"}), "B": (3, 0, 0, 0, {"cb": True})}
X_SETUP = [("set", "A", "on_state_change", None), ("consume", "A", 2, "ATP", False), ("consume", "B", 1, "ATP", False),
           ("set", "A", "on_state_change", "cb")]
X_OPS = {
    "spend1": [("consume", "A", 1, "ATP", False)],
    "spend-debt": [("consume", "A", 3, "ATP", True)],
    "regen": [("regenerate", "A", 2, "ATP")],
    "xfer-in": [("transfer", "B", "A", 2, "ATP")],
    "xfer-out": [("transfer", "A", "B", 1, "ATP")],
    "reset": [("reset", "A")],
}
XPAIRS = pair_family("X", X_CFG, X_SETUP, X_OPS, opts={"raising_cb": True})

# --- E: the class (and message) of the exception the callback raises, for a call that notifies while holding one
# lock (spend) next to one that notifies while holding two (incoming transfer): every builtin exception class that
# library code plausibly treats specially, with an empty and with a non-empty message.
E_CLASSES = ("TypeError", "ValueError", "KeyError", "AttributeError", "StopIteration", "RuntimeError", "AssertionError",
             "LookupError", "OSError", "TimeoutError")
EPAIRS = []
for _c in E_CLASSES:
    for _m in (None, "boom"):
        _n = f"E:{_c}{'+msg' if _m else ''}:spend1|xfer-in"
        H[_n] = ({"A": X_CFG["A"][:4] + ({"cb": ("raise", _c, _m)},), "B": X_CFG["B"]}, [X_OPS["spend1"], X_OPS["xfer-in"]])
        SETUP[_n] = X_SETUP
        OPTS[_n] = {"raising_cb": True}
        EPAIRS.append(_n)

# --- K: construction is itself a scheduled step. A thread whose first op is ("construct", X) builds store X inside
# its body; every later op of any thread first waits (a Latch: blocking is visible to the scheduler) until the stores
# it names are published. Stores nobody constructs in a thread exist before the threads start, as everywhere else.
K_CFG = {"A": (3, 0, 0, 0), "B": (3, 0, 0, 0)}
K_CFG_OPTS = {"A": (4, 3, 3, 3, _GO), "B": (4, 3, 3, 0, _GO)}  # the G family's non-default constructor options
K = {
    "K:opposite": (K_CFG, [[("construct", "A"), ("transfer", "A", "B", 2, "ATP")],
                           [("construct", "B"), ("transfer", "B", "A", 2, "ATP")]]),
    "K:same-direction": (K_CFG, [[("construct", "A"), ("transfer", "A", "B", 2, "ATP")],
                                 [("construct", "B"), ("transfer", "A", "B", 2, "ATP")]]),
    "K:peer-exists": (K_CFG, [[("construct", "A"), ("transfer", "A", "B", 2, "ATP")],
                              [("consume", "B", 1, "ATP", False), ("transfer", "B", "A", 2, "ATP")]]),
    "K:opposite-options-gtp": (K_CFG_OPTS, [[("construct", "A"), ("transfer", "A", "B", 2, "GTP")],
                                            [("construct", "B"), ("transfer", "B", "A", 2, "GTP")]]),
}
H.update(K)
KPAIRS = list(K)
# thorough: three threads, each constructs one store of a transfer ring and sends to the next one
H["K3:ring"] = ({"A": (2, 0, 0, 0), "B": (2, 0, 0, 0), "C": (2, 0, 0, 0)},
                [[("construct", "A"), ("transfer", "A", "B", 1, "ATP")], [("construct", "B"), ("transfer", "B", "C", 1, "ATP")],
                 [("construct", "C"), ("transfer", "C", "A", 1, "ATP")]])

# --- T (thorough): three-thread variants of the most contended P kinds (every multiset of three of the kinds that
# debit, credit or convert into A's ATP pool; one kind per thread)
T_KINDS = ["spend-topup", "spend-debt", "regen", "convert", "xfer-out"]
TRIPLES = []
for _t in itertools.combinations_with_replacement(T_KINDS, 3):
    _n = "T:" + "|".join(_t)
    H[_n] = (PAIR_CFG, [PAIR_OPS[k] for k in _t])
    SETUP[_n] = PAIR_SETUP
    TRIPLES.append(_n)

# --- W: two transfers between the same two stores (opposite / same direction) next to a third thread that works on
# ONE of the two stores (so one of the two locks can be held by somebody who never wants the other one), under both
# creation orders of the stores
# stores after SETUP: A = atp 2/4, nadh 1/1 ; B = atp 2/4, nadh 1/1
W_CFG = {"A": (4, 0, 1, 0), "B": (4, 0, 1, 0)}
W_SETUP = [("consume", "A", 2, "ATP", False), ("consume", "B", 2, "ATP", False)]
_W_TWO = {"opposite": [[("transfer", "A", "B", 2, "ATP")], [("transfer", "B", "A", 2, "ATP")]],
          "same": [[("transfer", "A", "B", 1, "ATP")], [("transfer", "A", "B", 2, "ATP")]]}
_W_THIRD = {"convert-A": [("convert", "A", 1)], "convert-B": [("convert", "B", 1)]}  # converts iff the store is not full
WTRIPLES = []
for _k, _two in _W_TWO.items():
    for _j, _third in _W_THIRD.items():
        for _suffix, _extra in (("", {}), ("@r", {"order": REVERSED})):
            _n = f"W:{_k}|{_j}{_suffix}"
            H[_n] = (W_CFG, _two + [_third])
            SETUP[_n] = W_SETUP
            if _extra:
                OPTS[_n] = dict(_extra)
            WTRIPLES.append(_n)

# --- library state: "warm" (the process has long created other stores: every harness above) and "fresh"
# (`...@fresh`: the harness's stores are the very first objects the library creates after being imported - whatever
# module-level counters / registries / caches the library keeps are in their initial state; every schedule and every
# sequential reference run starts from that state again, see common.fresh_call). Same harness, same oracle.
FRESH = "@fresh"


def fresh_of(names):
    out = []
    for n in names:
        f = n + FRESH
        if f not in H:
            H[f] = H[n]
            if n in SETUP:
                SETUP[f] = SETUP[n]
            OPTS[f] = {**OPTS.get(n, {}), "fresh": n}
        out.append(f)
    return out


def two_store(name):
    """does some call of the harness work on two different stores, or is a store constructed inside a thread?"""
    return any(op[0] == "construct" or (op[0] == "transfer" and op[1] != op[2]) for t in H[name][1] for op in t)


def xfer_pair(name):
    """do at least two threads work on two different stores?"""
    return sum(any(op[0] == "transfer" and op[1] != op[2] for op in t) for t in H[name][1]) >= 2


QUICK = ["S1-consume-consume", "S2-consume-regenerate", "S3-topup-convert", "S4-debt-debt", "S5-opposite-transfers",
         "S6-transfer-consume", "S7-three-threads", "S8-transfer-vs-two-consumes", "S13-two-agents-express",
         "S5r-opposite-transfers-ranks-reversed", "S10-self-transfer-and-regen", "R0-underfunded-ring",
         "R0r-underfunded-ring-ranks-reversed"]
OPCODE = ["S1-consume-consume", "S2-consume-regenerate", "S4-debt-debt", "S6-transfer-consume"]
RINGS = [n for n in H if n.startswith("R")]


BASE = list(H)  # every harness, warm
fresh_of(BASE)  # ... and its fresh-state variant (the plan picks)


def plan(tier):
    """[(harness, preemption bound)] at line granularity (+ the lock-acquisition points, see CoopLock).
    quick, warm: bound 2, except the wide G and E families and the three-thread W family at bound 1 (one preemption =
    one thread stopped anywhere inside its call while the others run their calls to the end);
    quick, fresh library state: every transfer || transfer pair of the P family (both creation orders) at bound 2;
    S5 / S5r, the K family and the opposite-direction W harnesses at bound 1 (W: warm and fresh).
    thorough: see THOROUGH_NOTE below."""
    if tier == "quick":
        w = [n for n in WTRIPLES if n.startswith("W:opposite")]
        warm = [(n, 2) for n in QUICK + PAIRS + DPAIRS + IPAIRS + XPAIRS + KPAIRS] + [(n, 1) for n in GPAIRS + EPAIRS + w]
        fresh = [(n, 2) for n in fresh_of([n for n in PAIRS if xfer_pair(n)])]
        fresh += [(n, 1) for n in fresh_of(["S5-opposite-transfers", "S5r-opposite-transfers-ranks-reversed"] + KPAIRS + w)]
        return warm + fresh
    wide = set(GPAIRS) | set(EPAIRS)
    three = {n for n in BASE if len(H[n][1]) >= 3} - {"S7-three-threads", "S14-three-agents-express"}
    warm = [(n, 2 if n in wide or n in three else 3) for n in BASE]
    fresh = [(f, 1 if n in wide or n in three else 2) for n, f in zip(BASE, fresh_of(BASE)) if two_store(n)]
    return warm + fresh


THOROUGH_NOTE = (
    "thorough plan: warm library state - preemption bound 3 for every two-thread harness and for S7 / S14, bound 2 for the "
    "wide G and E families and the other three-thread harnesses (rings R*, K3, triples T*, W*); fresh library state - every "
    "harness in which a call works on two stores or a store is constructed inside a thread, one bound lower (2; G, E and "
    "three-thread harnesses 1). Sizing (measured 2026-10-03 on the pinned tree, per-harness CPU time): the warm plan is "
    "about 1.7 million schedules / 4400 CPU-seconds (largest parts: T* 27 %, K 18 %, S5+S5r 9 %, S14 7 %, S7 6 %); "
    "going from bound 2 to bound 3 adds no new distinct outcome in any of the 269 harnesses explored at both bounds, so "
    "the fresh-state variants are not run at bound 3 and bound 3 is kept on the warm runs only (depth, not new outcomes)."
)


class _Null(io.TextIOBase):
    def write(self, s):
        return len(s)


def install_locks(obj):
    """threading.Lock/RLock attributes -> sched.CoopLock (its acquire() is itself a scheduling point when it directly
    follows the same thread's previous acquisition: `with first._lock, second._lock:` is one source line but two
    visible steps)"""
    return sched.install_locks(obj)


class Latch(sched.CoopLock):
    """One-shot flag the scheduler treats as blocking: wait() takes the calling logical thread off the set of
    schedulable threads until set() was called (no spinning; a flag nobody will ever set is a detected deadlock)."""

    def __init__(self, name, why):
        super().__init__(False, name)
        self.owner, self.count = f"[{why}]", 1

    def set(self):
        self.owner, self.count = None, 0

    def wait(self):
        while self.owner is not None:
            s = sched.ACTIVE
            me = s.current() if s is not None else None
            if me is None:
                raise sched.HangDetected(f"{self.name}: waited for outside the scheduler")
            s.block(me, self)


class Stores(dict):
    logs: dict  # store name -> notifications recorded by its callback
    cbs: dict   # store name -> the callback it was constructed with (harness-side handle, for ("set", .., "cb"))
    cfgs: dict  # store name -> configuration (stores named by a ("construct", name) op are built by that op)
    latches: dict  # store name -> Latch set once the thread constructing it has published it (scheduled runs only)


def _recorder(stores, name, log, raises):
    """raises: None, or (builtin exception class name, message or None for an empty-message instance)"""
    def on_state_change(st):
        log.append((st.value, stores[name].get_balance(), stores[name].get_debt()))
        if raises:
            cls = getattr(builtins, raises[0])
            raise cls() if raises[1] is None else cls(raises[1])
    return on_state_change


def mk_store(stores, name):
    """construct one store from its configuration, put the scheduler-aware locks in, publish it under its name"""
    cfg = stores.cfgs[name]
    b, g, n, d = cfg[:4]
    o = cfg[4] if len(cfg) > 4 else {}
    kw = {}
    if "interest" in o:
        kw["debt_interest"] = o["interest"]
    if o.get("cb"):
        log = stores.logs[name] = []
        raises = None if o["cb"] is True else ("ValueError", None) if o["cb"] == "raise" else tuple(o["cb"][1:3])
        kw["on_state_change"] = _recorder(stores, name, log, raises)
    s = ATP_Store(budget=b, gtp_budget=g, nadh_reserve=n, max_debt=d, silent=o.get("silent", True), **kw)
    # scheduler-aware locks everywhere, also in the sequential reference runs: there a call that
    # re-acquires a lock it already holds raises HangDetected instead of hanging the check
    install_locks(s)
    stores.cbs[name] = kw.get("on_state_change")
    stores[name] = s
    return s


def mk_stores(cfgs, order=None, deferred=()):
    """deferred: names left to a ("construct", name) op of the harness"""
    stores = Stores()
    stores.logs = {}
    stores.cbs = {}
    stores.cfgs = cfgs
    stores.latches = {}
    for name in (order or list(cfgs)):
        if name == "_":
            ATP_Store(budget=1, silent=True)  # unrelated instance: takes a lock rank
            continue
        if name not in deferred:
            mk_store(stores, name)
    return stores


def deferred_of(threads):
    return tuple(op[1] for t in threads for op in t if op[0] == "construct")


def stores_named(op):
    """the stores a call needs to exist"""
    if op[0] == "construct":
        return ()
    return (op[1], op[2]) if op[0] in ("transfer", "xfer_debit", "xfer_credit") else (op[1],)


def guarded(fn, *args):
    """A call the harness makes into the implementation: an escaping exception becomes the value
    ("raised", class name), a detected sequential hang ("hang", message) - never a traceback of the check."""
    try:
        return fn(*args)
    except sched.HangDetected as e:
        return ("hang", str(e))
    except Exception as e:  # noqa: BLE001
        return ("raised", type(e).__name__)


def is_hang(r):
    return isinstance(r, tuple) and len(r) == 2 and r[0] == "hang"


def is_raised(r):
    return isinstance(r, tuple) and len(r) == 2 and r[0] == "raised"


def call(stores, op):
    """apply, with an exception escaping from the user's callback turned into the call's return value"""
    try:
        return apply(stores, op)
    except Exception as e:  # noqa: BLE001
        return ("raised", type(e).__name__)


def run_setup(stores, setup):
    """the start state is reached through the public API, sequentially and with no raising callback installed:
    a call that raises or hangs there is returned as (op, result), else None"""
    for op in setup:
        r = guarded(apply, stores, op)
        if is_hang(r) or is_raised(r):
            return (op, r)
    return None


def apply(stores, op):
    k = op[0]
    if k == "construct":  # the constructor call itself is the operation
        mk_store(stores, op[1])
        return None
    s = stores[op[1]]
    if k == "consume":
        return s.consume(op[2], "op", ET[op[3]], allow_debt=op[4], **({"priority": op[5]} if len(op) > 5 else {}))
    if k == "regenerate":
        return s.regenerate(op[2], ET[op[3]])
    if k == "convert":
        return s.convert_nadh_to_atp(op[2])
    if k == "transfer":
        return s.transfer_to(stores[op[2]], op[3], ET[op[4]])
    if k == "dormant_in":
        return s.enter_dormancy()
    if k == "dormant_out":
        return s.exit_dormancy()
    if k == "reset":
        return s.reset()
    if k == "interest":
        return s.apply_debt_interest()
    if k == "get":
        if op[2] == "debt":
            return s.get_debt()
        if op[2] == "state":
            return s.get_state().value
        return s.get_balance(ET[op[2]])
    if k == "report":
        r = s.get_report()
        st = s.get_statistics()
        return (r.atp, r.gtp, r.nadh, r.debt, st["atp"], st["gtp"], st["nadh"], st["debt"])
    if k == "set":  # public attribute assigned after construction (setup only)
        return setattr(s, op[2], stores.cbs[op[1]] if op[3] == "cb" else op[3])
    if k == "express":
        from operon_ai.core.agent import BioAgent
        from operon_ai.core.types import Signal
        agent = BioAgent(name=f"agent-{op[2]}", role=op[2], atp_store=s)
        return agent.express(Signal(content="summarise the report")).action_type
    raise AssertionError(op)


def _final_of(s):
    return (s.atp, s.gtp, s.nadh, s.get_debt(), s.get_state().value, s.get_statistics()["total_consumed"])


def debt_of(s):
    """the store's debt as the public API reports it: get_debt(), else (that getter fails on a changed tree) the
    statistics / the report; None if no public source answers with a number"""
    for src in (s.get_debt, lambda: s.get_statistics()["debt"], lambda: s.get_report().debt):
        d = guarded(src)
        if isinstance(d, (int, float)) and not isinstance(d, bool):
            return d
    return None


def _under_trace_callback():
    """is the caller running inside a trace function (a frame executing the f_trace of the frame below it)?"""
    f = sys._getframe(1)
    while f is not None and f.f_back is not None:
        t = f.f_back.f_trace
        if t is not None and getattr(t, "__code__", None) is f.f_code:
            return True
        f = f.f_back
    return False


def getter_takes_lock(s):
    """Does get_debt() acquire one of the store's (scheduler-aware) locks? Decided by behaviour, sequentially: with
    every lock of the store held by somebody else the call cannot return (HangDetected). The per-scheduling-point
    invariant calls the getter only if it can never block."""
    locks = [v for v in vars(s).values() if isinstance(v, sched.CoopLock) and v.owner is None]
    for l in locks:
        l.owner, l.count = "probe", 1
    try:
        return is_hang(guarded(s.get_debt))
    finally:
        for l in locks:
            l.owner, l.count = None, 0


def final(stores):
    out = []
    for n, s in sorted(stores.items()):
        f = guarded(_final_of, s)
        if is_hang(f) or is_raised(f):  # a getter fails on the end state: part of the outcome
            f = (s.atp, s.gtp, s.nadh, debt_of(s), f)
        out.append((n,) + f + ((tuple(stores.logs[n]),) if n in stores.logs else ()))
    return tuple(out)


def interleavings(lens):
    """all sequences of thread ids consistent with program order"""
    ids = [i for i, n in enumerate(lens) for _ in range(n)]
    return sorted(set(itertools.permutations(ids)))


def _steps_of(threads, split):
    steps = []
    for t in threads:
        ts = []
        for op in t:
            if split and op[0] == "transfer":
                ts.append(("xfer_debit",) + op[1:])
                ts.append(("xfer_credit",) + op[1:])
            else:
                ts.append(op)
        steps.append(ts)
    return steps


def _seq_order(cfgs, steps, order_, setup, order, deferred):
    """one sequential order of the calls on newly made stores: ("out", outcome), ("skip",) if it is not an order of
    the calls (a call would have to wait for a store), or ("all", verdict) if the whole reference is that verdict"""
    with contextlib.redirect_stdout(_Null()):
        stores = mk_stores(cfgs, order, deferred)
        bad = run_setup(stores, setup)
        if bad:
            return ("all", ("sequential-setup", f"{bad[0]} -> {bad[1]}"))
        sink = ATP_Store(budget=10**6, gtp_budget=10**6, nadh_reserve=10**6, silent=True)
        sink.atp = sink.gtp = sink.nadh = 0
        install_locks(sink)
        pos = [0] * len(steps)
        rets = [[] for _ in steps]
        pend = {}
        for tid in order_:
            op = steps[tid][pos[tid]]
            pos[tid] += 1
            if any(n not in stores for n in stores_named(op)):
                return ("skip",)  # this call waits until the stores it names are constructed
            if op[0] == "construct":
                r = guarded(apply, stores, op)
                if is_hang(r) or is_raised(r):
                    return ("all", ("sequential-setup", f"{op} -> {r}"))
                rets[tid].append(r)
            elif op[0] == "xfer_debit":
                r = pend[tid] = guarded(stores[op[1]].transfer_to, sink, op[3], ET[op[4]])
            elif op[0] == "xfer_credit":
                r = pend.pop(tid)
                if r is True:
                    c = guarded(stores[op[2]].regenerate, op[3], ET[op[4]])
                    r = c if is_hang(c) or is_raised(c) else r
                if not is_hang(r):
                    rets[tid].append(r)
            else:
                r = guarded(apply, stores, op)
                rets[tid].append(r)
            if is_hang(r):
                return ("all", ("sequential-hang", f"{op}: {r[1]}"))
        return ("out", (tuple(tuple(r) for r in rets), final(stores)))


def sequential_outcomes(cfgs, threads, split, setup=(), order=None, fresh=False):
    """Reference: the implementation itself, run sequentially in every order of the calls.
    split=True: a transfer counts as two atomic steps (debit, later credit).
    fresh=True: every order starts from the just-imported library state (its stores are the first ones created).
    Every call is guarded: a call that raises has ("raised", class) as its return value in that order's outcome;
    a call that can never return (re-acquires a lock its own thread left held) makes the whole reference
    {("sequential-hang", ...)}, a failing setup call {("sequential-setup", ...)} (judged as such)."""
    outs = set()
    steps = _steps_of(threads, split)
    deferred = deferred_of(threads)
    for order_ in interleavings([len(t) for t in steps]):
        args = (cfgs, steps, order_, tuple(setup), order, deferred)
        r = common.fresh_call(__name__, "_seq_order", *args) if fresh else _seq_order(*args)
        if r[0] == "all":
            return {r[1]}
        if r[0] == "out":
            outs.add(r[1])
    return outs


def twin_locking(name):
    """getter_takes_lock for the stores a harness constructs inside its threads, decided on sequentially constructed
    twins (a store built inside a thread cannot be probed there)"""
    cfgs, threads = H[name]
    deferred = deferred_of(threads)
    if not deferred:
        return {}
    with contextlib.redirect_stdout(_Null()):
        twins = guarded(mk_stores, {n: cfgs[n] for n in deferred})
        return {n: getter_takes_lock(s) for n, s in twins.items()} if isinstance(twins, Stores) else {}


def make_factory(name, twins=None):
    """twins: twin_locking(name) decided elsewhere (fresh-state runs: nothing may be constructed before the
    harness's own stores)"""
    cfgs, threads = H[name]
    order = OPTS.get(name, {}).get("order")
    do = call if OPTS.get(name, {}).get("raising_cb") else apply

    deferred = deferred_of(threads)

    def make():
        stores = mk_stores(cfgs, order, deferred)
        stores.latches = {n: Latch(f"store-{n}-published", f"store {n} is not constructed yet") for n in deferred}
        run_setup(stores, SETUP.get(name, ()))  # a failing setup call is judged by judge_factory (sequential-setup)

        def step(op):
            if op[0] == "construct":
                p0 = sched.ACTIVE.npoints if sched.ACTIVE is not None else 0
                try:
                    return do(stores, op)  # constructor lines are scheduling points; locks installed before publishing
                finally:
                    make.ctor_points[op[1]] = (sched.ACTIVE.npoints if sched.ACTIVE is not None else 0) - p0
                    stores.latches[op[1]].set()  # also when the constructor raised: nobody waits for ever
            for n in stores_named(op):
                if n in stores.latches:
                    stores.latches[n].wait()
            missing = [n for n in stores_named(op) if n not in stores]
            return ("no-store", missing) if missing else do(stores, op)

        def body(ops):
            def run():
                return tuple(step(op) for op in ops)
            return run

        def finish(ex):
            rets = tuple(r[1] if r and r[0] == "ok" else (r[0] if r else None,) + ((r[1],) if r and r[0] == "raised" else ())
                         for r in ex.results)
            return (rets, final(stores))

        locking = {n: getter_takes_lock(s) for n, s in stores.items()}
        if deferred:
            locking.update(twin_locking(name) if twins is None else twins)

        def invariant():
            # what user code can see at this moment: the public balance attributes and the debt getter (lock-free in
            # the pinned tree; a getter that takes a lock cannot be asked from inside the scheduler - the debt is then
            # judged on the end state and through the G family's concurrent getters only)
            # The getter's own lines must not become scheduling points: it is only called while the interpreter has
            # tracing switched off, i.e. from inside the line tracer. (The scheduler's extra point in front of the
            # second lock acquisition of one source line comes from ordinary code; no store field changed since the
            # line point before it, so nothing is lost by reading only the public attributes there.)
            in_tracer = _under_trace_callback()
            for n, s in list(stores.items()):
                debt = 0
                if not locking.get(n, True) and in_tracer:
                    debt = guarded(s.get_debt)
                    if not isinstance(debt, (int, float)):
                        debt = 0  # a failing getter is judged on the end state (final)
                if s.atp < 0 or s.gtp < 0 or s.nadh < 0 or debt < 0:
                    return f"{n}: atp={s.atp} gtp={s.gtp} nadh={s.nadh} debt={debt}"
            return None

        make.invariant = invariant
        return [body(t) for t in threads], finish

    make.invariant = None
    make.ctor_points = {}  # store name -> scheduling points passed between entering and leaving its constructor
    return make


def _invariant_of(make):
    def inv():
        f = make.invariant
        return f() if f else None
    return inv


def project(outcome, mask):
    """the outcome with the values returned by getters blanked"""
    rets, fin = outcome
    return (tuple(tuple(None if m else r for r, m in zip(tr, tm)) for tr, tm in zip(rets, mask)), fin)


def _negative_reads(threads, rets):
    bad = []
    for t, tr in zip(threads, rets):
        for op, r in zip(t, tr):
            if op[0] == "get" and isinstance(r, int) and r < 0:
                bad.append((op, r))
            if op[0] == "report" and any(x < 0 for x in r):
                bad.append((op, r))
    return bad


def judge_factory(name):
    cfgs, threads = H[name]
    setup = SETUP.get(name, ())
    opts = OPTS.get(name, {})
    order = opts.get("order")
    fresh = bool(opts.get("fresh"))
    with contextlib.redirect_stdout(_Null()):
        strict = sequential_outcomes(cfgs, threads, split=False, setup=setup, order=order, fresh=fresh)
        split = sequential_outcomes(cfgs, threads, split=True, setup=setup, order=order, fresh=fresh)
        start = mk_stores(cfgs, order, deferred_of(threads))
        run_setup(start, setup)
        for n in deferred_of(threads):
            guarded(mk_store, start, n)
    hang = [o for o in strict if o and o[0] == "sequential-hang"]
    bad_setup = [o for o in strict if o and o[0] == "sequential-setup"]
    kinds = {op[0] for t in threads for op in t}
    mask = [[op[0] in GETTERS for op in t] for t in threads]
    has_getters = any(any(m) for m in mask)
    strict_proj = set() if hang or bad_setup or not has_getters else {project(o, mask) for o in strict}
    # observer-side accounting (public call history only): wealth = atp + gtp + nadh - debt over all stores;
    # a successful spend lowers it by exactly its cost, a regeneration raises it by at most its amount,
    # convert / transfer / dormancy never raise it
    d_start = {n: debt_of(s) for n, s in start.items()}
    w_start = sum(s.atp + s.gtp + s.nadh - (d_start[n] or 0) for n, s in start.items())
    max_debt = {n: s.max_debt for n, s in start.items()}
    accountable = not (kinds & {"reset", "express", "interest", "set"}) and None not in d_start.values()
    debt_capped = "interest" not in kinds

    def clauses(outcome):
        rets, fin = outcome
        v = []
        for e in fin:
            n, atp, gtp, nadh, debt = e[:5]
            if debt is None:  # no public getter reports the debt of this end state (the getters' failure is in `fin`)
                continue
            if min(atp, gtp, nadh, debt) < 0:
                v.append((f"negative-balance:{name}", f"final state of {n}: atp={atp} gtp={gtp} nadh={nadh} debt={debt}"))
            elif debt_capped and debt > max_debt[n]:
                v.append((f"debt-over-limit:{name}", f"final debt of {n} is {debt} > max_debt {max_debt[n]}"))
        bad = _negative_reads(threads, rets)
        if bad:
            v.append((f"negative-balance-read:{name}", f"a getter returned a negative value: {bad[:3]}"))
        if accountable and not v and all(e[4] is not None for e in fin):
            spent = sum(op[2] for t, tr in zip(threads, rets) for op, r in zip(t, tr) if op[0] == "consume" and r is True)
            regen = sum(op[2] for t in threads for op in t if op[0] == "regenerate")
            w_end = sum(e[1] + e[2] + e[3] - e[4] for e in fin)
            if spent > w_start - w_end + regen:
                v.append((f"overspend:{name}", f"successful spends total {spent} > {w_start - w_end + regen} available: wealth "
                                               f"(atp+gtp+nadh-debt over all stores) went from {w_start} to {w_end} with at "
                                               f"most {regen} regenerated"))
        return v

    def judge(ex, outcome):
        v = []
        if bad_setup:
            return [(f"call-fails-sequentially:{name}", f"while reaching the start state, no concurrency: {bad_setup[0][1]}")]
        if hang:
            return [(f"call-hangs-sequentially:{name}", f"even without any concurrency: {hang[0][1]}")]
        if ex.deadlock:
            v.append((f"deadlock:{name}", f"deadlock {ex.deadlock}"))
            return v
        if ex.horizon:
            v.append((f"livelock:{name}", "execution exceeded the step horizon"))
            return v
        for r in ex.results:
            if r[0] not in ("ok",):
                v.append((f"call-{r[0]}:{name}", f"thread ended with {r}"))
        if v:
            return v
        if ex.invariant_failures:
            v.append((f"negative-balance:{name}", f"at a scheduling point: {ex.invariant_failures[0]}"))
        seen = {k for k, _w in v}
        v += [c for c in clauses(outcome) if c[0] not in seen]
        if outcome in strict or opts.get("advisory"):
            return v
        if has_getters and project(outcome, mask) in strict_proj:
            return v  # only a getter's value differs: lock-free single reads (counted in run())
        if outcome in split:
            v.append(("nonatomic-transfer", f"{name}: outcome {outcome} needs the transfer split into debit and credit; "
                                            f"not reachable by any sequential order of the calls"))
            return v
        v.append((f"non-linearizable:{name}", f"outcome {outcome} is not produced by any sequential order "
                                                f"(sequential outcomes: {sorted(strict, key=repr)[:4]}...)"))
        return v

    return judge, strict, split


def _fresh_schedule(base, prefix, opcodes, twins):
    """runs inside common.fresh_call: one schedule of harness `base`, whose stores are the first objects the just
    imported library creates"""
    make = make_factory(base, twins)
    with contextlib.redirect_stdout(_Null()):
        return sched.run_schedule(make, tuple(prefix), trace_files=TRACE, opcodes=opcodes, invariant=_invariant_of(make))


def schedule_runner(name):
    """run_schedule for the library state the harness asks for: None (this process, warm) or a function running
    each schedule from the fresh state"""
    base = OPTS.get(name, {}).get("fresh")
    if not base:
        return None
    twins = twin_locking(base)

    def run(_make, prefix, opcodes=False, **_kw):
        return common.fresh_call(__name__, "_fresh_schedule", base, tuple(prefix), bool(opcodes), twins)
    return run


def run_harness(name, bound, opcodes=False, nproc=None):
    make = make_factory(name)
    judge, strict, split = judge_factory(name)
    with contextlib.redirect_stdout(_Null()):  # BioAgent.express / silent=False print; one process-wide redirect
        res = sched.explore(make, bound, judge, nproc=nproc, trace_files=TRACE, opcodes=opcodes,
                            invariant=_invariant_of(make), run=schedule_runner(name))
    res["strict"] = len(strict)
    res["split"] = len(split)
    # schedules whose outcome no sequential order produces (violations unless the harness is advisory or only a
    # getter's value differs; both are reported as observations)
    seq = {repr(o) for o in strict}
    res["non_sequential"] = sum(c for o, c in res["outcomes"].items() if o not in seq)
    return res


def _strip(res):
    res["violations"] = res["violations"][:20]
    return res


def run_harness_deferring(name, bound, strip=False, **kw):
    """run_harness; anything that still escapes (a changed tree can cause it) is deferred, so that the other
    harnesses are explored and judged all the same"""
    try:
        res = run_harness(name, bound, **kw)
        return _strip(res) if strip else res
    except Exception:  # noqa: BLE001
        return {"error": f"harness {name}: " + traceback.format_exc()[-1500:]}


def crossing_transfers(cfg, setup, ops):
    """Vacuity measure for the callback families, taken through the public API only: the transfer kinds whose
    amount, debited from the donor (credited to the receiver) in the start state, changes that store's metabolic
    state - i.e. where a state refresh / notification inside the transfer has something to report."""
    out = {"donor": [], "receiver": []}
    for k in sorted(ops):
        for op in ops[k]:
            if op[0] != "transfer" or op[1] == op[2]:
                continue
            with contextlib.redirect_stdout(_Null()):
                stores = mk_stores(cfg)
                run_setup(stores, setup)
                d, r = stores[op[1]], stores[op[2]]
                before = (guarded(d.get_state), guarded(r.get_state))
                guarded(d.consume, op[3], "probe", ET[op[4]])
                guarded(r.regenerate, op[3], ET[op[4]])
                after = (guarded(d.get_state), guarded(r.get_state))
            if before[0] != after[0] and op[1] in stores.logs:
                out["donor"].append(k)
            if before[1] != after[1] and op[2] in stores.logs:
                out["receiver"].append(k)
    return out


def _is_small(name):
    return name[:2] in ("P:", "G:", "D:", "I:", "T:", "X:", "E:", "K:", "W:")


def run(ctx):
    todo = plan(ctx.tier)
    bound = 2 if ctx.tier == "quick" else 3
    total_exec = 0
    per = {}
    # sanity: the lock replacement must find the lock the code actually uses
    s = ATP_Store(budget=1, silent=True)
    ctx.coverage["locks_replaced"] = install_locks(s)
    # sanity: the callback families must contain transfers that take a store with a callback across a state threshold
    crossing = {"G": crossing_transfers(G_CFG, G_SETUP, G_OPS), "X": crossing_transfers(X_CFG, X_SETUP, X_OPS)}
    ctx.coverage["threshold_crossing_transfers"] = crossing
    for fam, c in crossing.items():
        if not c["donor"]:
            ctx.defer_harness_error(f"family {fam}: no transfer kind takes a donor with a callback across a state threshold")
    # sanity: in the K family the constructor must really run under the scheduler (measured on the default schedule,
    # where each constructor runs without interruption)
    mk = make_factory(KPAIRS[0])
    try:
        sched.run_schedule(mk, (), trace_files=TRACE)
    except Exception:  # noqa: BLE001 - judged by the exploration below
        pass
    ctx.coverage["constructor_scheduling_points"] = dict(mk.ctor_points)
    if not mk.ctor_points or min(mk.ctor_points.values()) < 2:
        ctx.defer_harness_error(f"family K: the constructor passes {mk.ctor_points} scheduling points - construction is not interleaved")
    big = [x for x in todo if not _is_small(x[0])]
    small = [x for x in todo if _is_small(x[0])]
    results = []
    for name, b in common.rotate(big, ctx.seed):  # large trees: parallel inside the harness
        results.append((name, b, run_harness_deferring(name, b)))
    # many small trees: one harness per worker
    small = common.rotate(small, ctx.seed)
    results += [(n, b, r) for (n, b), r in zip(small, common.pmap(lambda x: run_harness_deferring(x[0], x[1], strip=True, nproc=1), small))]
    results.sort(key=lambda x: x[0])
    for name, b, res in results:
        if "error" in res:
            ctx.defer_harness_error(res["error"])
            continue
        total_exec += res["executions"]
        per[name] = {"schedules": res["executions"], "distinct_outcomes": len(res["outcomes"]),
                     "sequential_outcomes": res["strict"], "max_choice_points": res["max_choice_points"],
                     "max_preemptions": res["max_preemptions"], "preemption_bound": b, "capped": res["capped"]}
        if name.endswith(FRESH):
            per[name]["library_state"] = "fresh import"
            ctx.stats["fresh-state:harnesses"] += 1
            ctx.stats["fresh-state:schedules"] += res["executions"]
        for o in res["outcomes"]:
            ctx.outcomes.add((name, o))
        for k, what, case in res["violations"]:
            ctx.report(k, what, {"harness": name, **case})
        ctx.stats["points"] += res["max_choice_points"]
        if res["non_sequential"]:
            per[name]["non_sequential_schedules"] = res["non_sequential"]
            kind = "unsynchronised-interest" if OPTS.get(name, {}).get("advisory") else "getter-intermediate-read"
            ctx.stats[f"not-asserted:{kind}:schedules"] += res["non_sequential"]
            ctx.stats[f"not-asserted:{kind}:harnesses"] += 1
    if ctx.stats["not-asserted:getter-intermediate-read:schedules"]:
        ctx.note("getters are lock-free single reads: in %d schedules of %d harnesses a value returned by a getter running "
                 "next to a mutator is an intermediate one (all other return values and the final state are those of a "
                 "sequential order); not asserted — the statement quantifies over spend/regenerate/convert/transfer calls"
                 % (ctx.stats["not-asserted:getter-intermediate-read:schedules"],
                    ctx.stats["not-asserted:getter-intermediate-read:harnesses"]))
    if ctx.stats["not-asserted:unsynchronised-interest:schedules"]:
        ctx.note("apply_debt_interest takes no lock: %d schedules of %d harnesses end in an outcome no sequential order "
                 "produces; not asserted — it is not one of the operations the statement lists"
                 % (ctx.stats["not-asserted:unsynchronised-interest:schedules"],
                    ctx.stats["not-asserted:unsynchronised-interest:harnesses"]))
    if ctx.tier == "thorough":
        ctx.note(THOROUGH_NOTE)
        for name in OPCODE:
            res = run_harness_deferring(name, 2, opcodes=True)
            if "error" in res:
                ctx.defer_harness_error(res["error"])
                continue
            total_exec += res["executions"]
            per[name + "@opcode"] = {"schedules": res["executions"], "distinct_outcomes": len(res["outcomes"]),
                                     "max_choice_points": res["max_choice_points"], "preemption_bound": 2,
                                     "capped": res["capped"]}
            for k, what, case in res["violations"]:
                ctx.report(k, what, {"harness": name, "opcodes": True, **case})
    ctx.sample({"harness": "S8-transfer-vs-two-consumes", "threads": H["S8-transfer-vs-two-consumes"][1]})
    ctx.sample({"harness": "G:atp-topup-debt|xfer-in-atp", "stores": G_CFG, "setup": G_SETUP,
                "threads": H["G:atp-topup-debt|xfer-in-atp"][1]})
    ctx.sample({"harness": "G:xfer-in-atp|xfer-in-gtp@r", "stores": G_CFG, "setup": G_SETUP,
                "threads": H["G:xfer-in-atp|xfer-in-gtp@r"][1], "creation_order": REVERSED})
    ctx.sample({"harness": "R2-transfer-ring-ranks-reversed", "threads": _RING[1],
                "creation_order": OPTS["R2-transfer-ring-ranks-reversed"]["order"]})
    ctx.sample(per)
    ctx.coverage.update(
        states=sum(p["max_choice_points"] for p in per.values()),
        transitions=total_exec,
        traces_validated_against_impl=total_exec,
        evaluations=total_exec,
        distinct_nontrivial=len(ctx.outcomes),
        rule="every schedule of each harness up to its preemption bound, scheduling point = every source line of "
             "metabolism.py and every lock acquisition (+ every bytecode in the @opcode runs); harness families: "
             "hand-picked collisions S*, lock-rank variants and three-store transfer rings R*, all unordered pairs of "
             "operation kinds from several start states (P: ATP mid state; G: three currencies, debt carried, silent=False, "
             "state-change callback, getters; D: starving/dormant with priorities; X: raising state-change callback; "
             "E: class and message of the exception the callback raises; I: apply_debt_interest, advisory; K: each thread "
             "constructs its own store as a scheduled step, publishes it, waits for its peer's, then transfers; W: two "
             "transfers between two stores + a third thread working on one of them), every transfer||transfer pair of a family under both creation orders of "
             "the two stores (@r); library state: warm (other stores were created before) and @fresh (the harness's stores "
             "are the first objects created after a fresh import of the library; every schedule and every sequential "
             "reference order restarts from that state) for the two-store families; "
             "three-thread multisets T* (thorough); distinct = distinct (harness, outcome) pairs; "
             "'states' = sum over harnesses of the maximum number of scheduling choice points in one execution",
        exhaustive=all(p["capped"] == 0 for p in per.values()),
        harnesses=per,
        harness_count=len(per),
        preemption_bound=bound,
        op_kinds={"P": len(PAIR_OPS), "G": len(G_OPS), "D": len(D_OPS), "X": len(X_OPS), "I": len(I_OPS), "T": len(T_KINDS)},
        construction_harnesses=KPAIRS + (["K3:ring"] if ctx.tier == "thorough" else []),
        fresh_state_harnesses=sorted(n for n in per if n.endswith(FRESH)),
        callback_exception_classes=list(E_CLASSES),
    )
    ctx.assumptions += [
        "CoopLock has the mutual-exclusion semantics of threading.Lock/RLock; C-level atomicity of a single bytecode is trusted",
        "interleavings are explored at source-line granularity (bytecode granularity on 4 harnesses in the thorough tier)",
        "fresh library state = the state right after `import operon_ai` in a new interpreter state of the library modules "
        "(operon_ai* purged from sys.modules and re-imported in a server process, each run in a fork of it); state kept "
        "outside the library's own modules (environment, files) is not reset",
        "regeneration_rate > 0 (a real timer thread sleeping 1 s) is not constructed; the background thread is modelled by an "
        "explicit regenerate() thread",
    ]


def replay(ctx, case):
    name = case["harness"]
    make = make_factory(name)
    judge, _s, _p = judge_factory(name)
    outs = []
    for _ in range(2):
        with contextlib.redirect_stdout(_Null()):
            ex, outcome = (schedule_runner(name) or sched.run_schedule)(
                make, tuple(case["schedule"]), trace_files=TRACE, opcodes=bool(case.get("opcodes")), invariant=_invariant_of(make))
        outs.append((outcome, ex.deadlock))
    if repr(outs[0]) != repr(outs[1]):
        raise common.HarnessError(f"replay not deterministic: {outs}")
    print("  schedule (thread order):", ex.thread_order)
    print("  outcome:", outs[0])
    return judge(ex, outcome)
