"""C05 — energy store operations are atomic under every thread interleaving.

Engine C: real threads running real ATP_Store methods under the controlled scheduler; every
source line of operon_ai/state/metabolism.py is a scheduling point; the stores' threading.Lock
is replaced by a scheduler-aware CoopLock (same mutual-exclusion semantics, blocking visible).
Oracle: the outcome (every call's return value + final balances/debt/state of every store)
must be one the *implementation itself* produces when the same calls run sequentially in
some order consistent with each thread's program order.
"""
from __future__ import annotations

import contextlib
import io
import itertools

from mc import common, sched

import operon_ai.state.metabolism as metab
from operon_ai.state.metabolism import ATP_Store, EnergyType

ET = {"ATP": EnergyType.ATP, "GTP": EnergyType.GTP, "NADH": EnergyType.NADH}
TRACE = (metab.__file__,)

# harness = (store configs {name: (budget,gtp,nadh,max_debt)}, threads [[op,...],...])
H = {
    "S1-consume-consume": ({"A": (5, 0, 0, 0)}, [[("consume", "A", 3, "ATP", False)], [("consume", "A", 3, "ATP", False)]]),
    "S2-consume-regenerate": ({"A": (4, 0, 0, 0)}, [[("consume", "A", 2, "ATP", False), ("consume", "A", 3, "ATP", False)],
                                                   [("regenerate", "A", 2, "ATP")]]),
    "S3-topup-convert": ({"A": (4, 0, 3, 0)}, [[("consume", "A", 3, "ATP", False), ("consume", "A", 3, "ATP", False)],
                                              [("convert", "A", 2)]]),
    "S4-debt-debt": ({"A": (2, 0, 0, 3)}, [[("consume", "A", 4, "ATP", True)], [("consume", "A", 3, "ATP", True)]]),
    "S5-opposite-transfers": ({"A": (3, 0, 0, 0), "B": (3, 0, 0, 0)},
                              [[("consume", "A", 1, "ATP", False), ("transfer", "A", "B", 2, "ATP")],
                               [("consume", "B", 1, "ATP", False), ("transfer", "B", "A", 2, "ATP")]]),
    "S6-transfer-consume": ({"A": (3, 0, 0, 0), "B": (2, 0, 0, 0)},
                            [[("transfer", "A", "B", 2, "ATP")], [("consume", "B", 2, "ATP", False), ("consume", "B", 2, "ATP", False)]]),
    "S7-three-threads": ({"A": (4, 0, 0, 0)}, [[("consume", "A", 3, "ATP", False)], [("consume", "A", 3, "ATP", False)],
                                               [("regenerate", "A", 2, "ATP")]]),
    "S8-transfer-vs-two-consumes": ({"A": (5, 0, 0, 0), "B": (5, 0, 0, 0)},
                                    [[("consume", "B", 5, "ATP", False), ("transfer", "A", "B", 5, "ATP")],
                                     [("consume", "A", 5, "ATP", False), ("consume", "B", 5, "ATP", False)]]),
    "S9-gtp-nadh-debt-mix": ({"A": (2, 2, 2, 2)}, [[("consume", "A", 3, "ATP", True), ("consume", "A", 2, "GTP", False)],
                                                   [("consume", "A", 2, "NADH", False), ("regenerate", "A", 1, "ATP")]]),
    "S10-self-transfer-and-regen": ({"A": (3, 0, 0, 0)}, [[("transfer", "A", "A", 2, "ATP")],
                                                         [("consume", "A", 3, "ATP", False), ("regenerate", "A", 1, "ATP")]]),
    "S11-dormancy-toggle": ({"A": (4, 0, 0, 0)}, [[("dormant_in", "A"), ("dormant_out", "A")], [("consume", "A", 2, "ATP", False)]]),
    # two real agents sharing one store, as a quorum / guard loop does (only metabolism.py lines are scheduling points)
    "S13-two-agents-express": ({"A": (10, 0, 0, 0)}, [[("express", "A", "Voter")], [("express", "A", "Executor")]]),
    "S14-three-agents-express": ({"A": (25, 0, 0, 0)}, [[("express", "A", "Voter")], [("express", "A", "Voter")],
                                                       [("express", "A", "RiskAssessor")]]),
    "S12-reset-vs-consume": ({"A": (3, 0, 0, 0)}, [[("consume", "A", 2, "ATP", False), ("reset", "A")], [("consume", "A", 2, "ATP", False)]]),
}
# --- systematic pair family: every unordered pair of operation kinds on a store in a "middle" state -----------
# stores after SETUP: A = atp 2/4, nadh 3/3, debt 0/2 ; B = atp 2/3
PAIR_CFG = {"A": (4, 0, 3, 2), "B": (3, 0, 0, 0)}
PAIR_SETUP = [("consume", "A", 2, "ATP", False), ("consume", "B", 1, "ATP", False)]
PAIR_OPS = {
    "spend1": [("consume", "A", 1, "ATP", False)],
    "spend-topup": [("consume", "A", 3, "ATP", False)],
    "spend-debt": [("consume", "A", 6, "ATP", True)],
    "spend-nadh": [("consume", "A", 2, "NADH", False)],
    "regen": [("regenerate", "A", 2, "ATP")],
    "convert": [("convert", "A", 2)],
    "xfer-out": [("transfer", "A", "B", 2, "ATP")],
    "xfer-in": [("transfer", "B", "A", 2, "ATP")],
    "reset": [("reset", "A")],
    "dormancy": [("dormant_in", "A"), ("dormant_out", "A")],
}
SETUP = {}
_names = sorted(PAIR_OPS)
for _i, _a in enumerate(_names):
    for _b in _names[_i:]:
        _n = f"P:{_a}|{_b}"
        H[_n] = (PAIR_CFG, [PAIR_OPS[_a], PAIR_OPS[_b]])
        SETUP[_n] = PAIR_SETUP
PAIRS = [n for n in H if n.startswith("P:")]

QUICK = ["S1-consume-consume", "S2-consume-regenerate", "S3-topup-convert", "S4-debt-debt", "S5-opposite-transfers",
         "S6-transfer-consume", "S7-three-threads", "S8-transfer-vs-two-consumes", "S13-two-agents-express"]


class _Null(io.TextIOBase):
    def write(self, s):
        return len(s)


def mk_stores(cfgs):
    stores = {}
    for name, (b, g, n, d) in cfgs.items():
        s = ATP_Store(budget=b, gtp_budget=g, nadh_reserve=n, max_debt=d, silent=True)
        # scheduler-aware locks everywhere, also in the sequential reference runs: there a call that
        # re-acquires a lock it already holds raises HangDetected instead of hanging the check
        sched.install_locks(s)
        stores[name] = s
    return stores


def apply(stores, op):
    k = op[0]
    s = stores[op[1]]
    if k == "consume":
        return s.consume(op[2], "op", ET[op[3]], allow_debt=op[4])
    if k == "regenerate":
        return s.regenerate(op[2], ET[op[3]])
    if k == "convert":
        return s.convert_nadh_to_atp(op[2])
    if k == "transfer":
        return s.transfer_to(stores[op[2]], op[3], ET[op[4]])
    if k == "dormant_in":
        return s.enter_dormancy()
    if k == "dormant_out":
        return s.exit_dormancy()
    if k == "reset":
        return s.reset()
    if k == "express":
        from operon_ai.core.agent import BioAgent
        from operon_ai.core.types import Signal
        agent = BioAgent(name=f"agent-{op[2]}", role=op[2], atp_store=s)
        return agent.express(Signal(content="summarise the report")).action_type
    raise AssertionError(op)


def final(stores):
    return tuple((n, s.atp, s.gtp, s.nadh, s.get_debt(), s.get_state().value, s.get_statistics()["total_consumed"])
                 for n, s in sorted(stores.items()))


def interleavings(lens):
    """all sequences of thread ids consistent with program order"""
    ids = [i for i, n in enumerate(lens) for _ in range(n)]
    return sorted(set(itertools.permutations(ids)))


def sequential_outcomes(cfgs, threads, split, setup=()):
    """Reference: the implementation itself, run sequentially in every order of the calls.
    split=True: a transfer counts as two atomic steps (debit, later credit)."""
    outs = set()
    steps = []
    for t in threads:
        ts = []
        for op in t:
            if split and op[0] == "transfer":
                ts.append(("xfer_debit",) + op[1:])
                ts.append(("xfer_credit",) + op[1:])
            else:
                ts.append(op)
        steps.append(ts)
    for order in interleavings([len(t) for t in steps]):
        stores = mk_stores(cfgs)
        for op in setup:
            apply(stores, op)
        sink = ATP_Store(budget=10**6, gtp_budget=10**6, nadh_reserve=10**6, silent=True)
        sink.atp = sink.gtp = sink.nadh = 0
        sched.install_locks(sink)
        pos = [0] * len(steps)
        rets = [[] for _ in steps]
        pend = {}
        for tid in order:
            op = steps[tid][pos[tid]]
            pos[tid] += 1
            if op[0] == "xfer_debit":
                try:
                    r = stores[op[1]].transfer_to(sink, op[3], ET[op[4]])
                except sched.HangDetected as e:
                    return {("sequential-hang", f"{op}: {e}")}
                pend[tid] = r
            elif op[0] == "xfer_credit":
                r = pend.pop(tid)
                if r:
                    stores[op[2]].regenerate(op[3], ET[op[4]])
                rets[tid].append(r)
            else:
                try:
                    rets[tid].append(apply(stores, op))
                except sched.HangDetected as e:
                    return {("sequential-hang", f"{op}: {e}")}
        outs.add((tuple(tuple(r) for r in rets), final(stores)))
    return outs


def make_factory(name):
    cfgs, threads = H[name]

    def make():
        stores = mk_stores(cfgs)
        for op in SETUP.get(name, ()):
            apply(stores, op)

        def body(ops):
            def run():
                return tuple(apply(stores, op) for op in ops)
            return run

        def finish(ex):
            rets = tuple(r[1] if r and r[0] == "ok" else (r[0] if r else None,) + ((r[1],) if r and r[0] == "raised" else ())
                         for r in ex.results)
            return (rets, final(stores))

        def invariant():
            for n, s in stores.items():
                if s.atp < 0 or s.gtp < 0 or s.nadh < 0 or s._debt < 0:
                    return f"{n}: atp={s.atp} gtp={s.gtp} nadh={s.nadh} debt={s._debt}"
            return None

        make.invariant = invariant
        return [body(t) for t in threads], finish

    return make


def judge_factory(name):
    cfgs, threads = H[name]
    with contextlib.redirect_stdout(_Null()):
        strict = sequential_outcomes(cfgs, threads, split=False, setup=SETUP.get(name, ()))
        split = sequential_outcomes(cfgs, threads, split=True, setup=SETUP.get(name, ()))

    hang = [o for o in strict if o and o[0] == "sequential-hang"]

    def judge(ex, outcome):
        v = []
        if hang:
            return [(f"call-hangs-sequentially:{name}", f"even without any concurrency: {hang[0][1]}")]
        if ex.deadlock:
            v.append((f"deadlock:{name}", f"deadlock {ex.deadlock}"))
            return v
        if ex.horizon:
            v.append((f"livelock:{name}", "execution exceeded the step horizon"))
            return v
        for r in ex.results:
            if r[0] not in ("ok",):
                v.append((f"call-{r[0]}:{name}", f"thread ended with {r}"))
        if v:
            return v
        if outcome in strict:
            return v
        if outcome in split:
            v.append(("nonatomic-transfer", f"{name}: outcome {outcome} needs the transfer split into debit and credit; "
                                            f"not reachable by any sequential order of the calls"))
            return v
        v.append((f"non-linearizable:{name}", f"outcome {outcome} is not produced by any sequential order "
                                                f"(sequential outcomes: {sorted(strict)[:4]}...)"))
        return v

    return judge, strict, split


def run_harness(name, bound, opcodes=False, nproc=None):
    make = make_factory(name)
    judge, strict, split = judge_factory(name)

    def inv():
        f = getattr(make, "invariant", None)
        return f() if f else None

    with contextlib.redirect_stdout(_Null()):  # BioAgent.express prints; one process-wide redirect, not per thread
        res = sched.explore(make, bound, judge, nproc=nproc, trace_files=TRACE, opcodes=opcodes, invariant=None)
    res["strict"] = len(strict)
    res["split"] = len(split)
    return res


def _strip(res):
    res["violations"] = res["violations"][:20]
    return res


def run(ctx):
    names = QUICK + PAIRS if ctx.tier == "quick" else list(H)
    bound = 2 if ctx.tier == "quick" else 3
    total_exec = 0
    per = {}
    # sanity: the CoopLock replacement must find the lock the code actually uses
    s = ATP_Store(budget=1, silent=True)
    ctx.coverage["locks_replaced"] = sched.install_locks(s)
    big = [n for n in names if not n.startswith("P:")]
    small = [n for n in names if n.startswith("P:")]
    results = []
    for name in common.rotate(big, ctx.seed):  # large trees: parallel inside the harness
        results.append((name, run_harness(name, bound)))
    # many small trees: one harness per worker
    small = common.rotate(small, ctx.seed)
    results += list(zip(small, common.pmap(lambda n: _strip(run_harness(n, bound, nproc=1)), small)))
    for name, res in results:
        total_exec += res["executions"]
        per[name] = {"schedules": res["executions"], "distinct_outcomes": len(res["outcomes"]),
                     "sequential_outcomes": res["strict"], "max_choice_points": res["max_choice_points"],
                     "max_preemptions": res["max_preemptions"], "preemption_bound": bound, "capped": res["capped"]}
        for o in res["outcomes"]:
            ctx.outcomes.add((name, o))
        for k, what, case in res["violations"]:
            ctx.report(k, what, {"harness": name, **case})
        ctx.stats["points"] += res["max_choice_points"]
    if ctx.tier == "thorough":
        for name in ["S1-consume-consume", "S2-consume-regenerate", "S4-debt-debt", "S6-transfer-consume"]:
            res = run_harness(name, 2, opcodes=True)
            total_exec += res["executions"]
            per[name + "@opcode"] = {"schedules": res["executions"], "distinct_outcomes": len(res["outcomes"]),
                                     "max_choice_points": res["max_choice_points"], "preemption_bound": 2,
                                     "capped": res["capped"]}
            for k, what, case in res["violations"]:
                ctx.report(k, what, {"harness": name, "opcodes": True, **case})
    ctx.sample({"harness": "S8-transfer-vs-two-consumes", "threads": H["S8-transfer-vs-two-consumes"][1]})
    ctx.sample(per)
    ctx.coverage.update(
        states=sum(p["max_choice_points"] for p in per.values()),
        transitions=total_exec,
        traces_validated_against_impl=total_exec,
        evaluations=total_exec,
        distinct_nontrivial=len(ctx.outcomes),
        rule="every schedule of each harness up to the preemption bound, scheduling point = every source line of "
             "metabolism.py (+ every bytecode in the @opcode runs); distinct = distinct (harness, outcome) pairs; "
             "'states' = sum over harnesses of the maximum number of scheduling choice points in one execution",
        exhaustive=all(p["capped"] == 0 for p in per.values()),
        harnesses=per,
        preemption_bound=bound,
    )
    ctx.assumptions += [
        "CoopLock has the mutual-exclusion semantics of threading.Lock; C-level atomicity of a single bytecode is trusted",
        "interleavings are explored at source-line granularity (bytecode granularity on 4 harnesses in the thorough tier)",
    ]


def replay(ctx, case):
    name = case["harness"]
    make = make_factory(name)
    judge, _s, _p = judge_factory(name)
    outs = []
    for _ in range(2):
        ex, outcome = sched.run_schedule(make, tuple(case["schedule"]), trace_files=TRACE, opcodes=bool(case.get("opcodes")))
        outs.append((outcome, ex.deadlock))
    if repr(outs[0]) != repr(outs[1]):
        raise common.HarnessError(f"replay not deterministic: {outs}")
    print("  schedule (thread order):", ex.thread_order)
    print("  outcome:", outs[0])
    return judge(ex, outcome)
