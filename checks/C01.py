"""C01 — safe evaluator (Mitochondria.metabolize): confined to its allow-list, total, resource-bounded.

Engine D (bounded-exhaustive input enumeration on the real implementation) + a small engine-A
history search for the ROS latch + child processes for the resource clause.

Sub-checks (DESIGN.md "### C01"):
  1 confinement   probes for every forbidden ast.expr class of the running interpreter x strict
                  holes of allowed contexts (depth <=2 quick / <=3 thorough, innermost level of depth 3
                  reduced to one representative per node class+field) x 5 pathways x 4 tool sets;
                  name universe x 7 call shapes x 9 placements (root, list/tuple elements, arguments of
                  an allow-listed function, positional/nested/keyword tool arguments) with an audit hook,
                  canaries, a table of dangerous builtins and a position-independence oracle (a name the
                  engine refuses at the root must not be evaluated inside a display or call argument);
                  Dict/Set displays are literal-only: judged like forbidden nodes on the computing
                  pathways, "don't care" where the string is literal data (transform; auto + pure literal);
                  string-level pathway tricks.
  1d history      confinement may not depend on what was evaluated before: every name-universe text (name x call shape
                  x root / depth-1 placement; all 9 placements thorough), every forbidden-construct probe at the root
                  and in every depth-1 context (thorough: + depth 2 for one probe per class) and every trick string is
                  evaluated as the two-call sequence  a ; b  for EVERY ordered pair of the six entry points
                  (metabolize auto / math / logic / tool / transform, digest_glucose), b on the same engine and on a
                  second engine of the process, back to back, each sequence in a freshly forked process that has not
                  seen the text before.  Both evaluations are judged by the normal confinement oracle of the text's
                  family, plus the differential clause: a text that entry point b refuses when fresh must not be
                  accepted after a (confirmed against a brand-new engine in a new process before it is reported).
  2 totality      every input above plus hostile strings, a positional sweep (2/3/4-byte characters and lone
                  surrogates at every offset 0..71 (quick) / 0..135 (thorough) and around the length limit,
                  ASCII and same-character filler, three total lengths, five expression shapes) and
                  expressions whose successful value is awkward to render (ints around the int->str digit
                  limit, non-finite floats, long strings, deep/wide containers); every public entry point
                  that takes an expression string (metabolize on every pathway, digest_glucose); silent=True
                  and silent=False (stdout is a strict UTF-8 text stream); crash-prone inputs run in a
                  forked child; ROS latch histories explored to fixpoint/depth (also judged for confinement and
                  tool discipline at every ROS level).
  2b configuration  the engine's constructor parameters are part of "the safe computation engine": the full product
                  timeout_seconds {0, 0.0, -0.0, denormal, tiny, 0.5, 5.0, int, huge, float-max, huge int, inf, nan} x
                  max_ros {0, 0.1, 0.3, 1.0, huge, inf, nan} x silent x allowed_capabilities {None, empty, one, all}
                  (plus the three tool-registration routes) x a core set of succeeding / failing / forbidden
                  expressions x every entry point, on a fresh engine per case, each call twice; the hostile and
                  awkward-result strings x timeout x silent; the confinement contexts (depth 1 quick / 2 thorough) x
                  every configuration one dimension away from the baseline; tool answers (odd return values, every
                  builtin Exception class without a message, odd messages, a bare assert) x timeout x silent; every
                  prefix of <=2 public operations (calls on the same engine, on another engine of the process,
                  observers, repair, execute_tool_call, re-registration, tools.pop, attribute setting) before a judged
                  case, with the registered-tool set tracked by the harness.  Oracle: never raises / returns the
                  documented type, forbidden probes fail, a tool body runs only when the string addresses a tool
                  registered on that engine on a tool-executing pathway, a name that is neither documented-pure nor
                  registered cannot be called, and a string a fresh engine refuses is not accepted after a history.
                  Every call runs under a CPU-time watchdog (a spinning call is reported, not waited for).
  3 resource      magnitude alphabet in forked children (RLIMIT_AS 4 GiB, RLIMIT_CPU = deadline):
                  a child killed by the kernel for exceeding the CPU deadline never returned.  Cheap expressions
                  under every timeout value, unbounded ones also under the zero / tiny budgets.

Oracle (from the property text only): a forbidden probe in a strict hole must yield a failure result
(success => the evaluator evaluated the forbidden node, whatever its laziness); a name outside the
documented pure set is judged by WITNESSED behaviour only; metabolize never raises; the call returns
(success or failure result) before the deadline governed by timeout_seconds.

Deviations from DESIGN.md: operator classes outside the documented table (BitOr, In, Is, ...) are observed
(coverage.operators_accepted), not judged - the statement does not forbid them; keyword values of allow-listed
calls are a skippable hole (this evaluator ignores keywords, C02's business) judged by a value witness; the
deadline is CPU time enforced by the kernel (RLIMIT_CPU) so load cannot flip a verdict; the ROS history search
is depth-bounded (float accumulation has no fixpoint); sys.setprofile tracing is not used; Dict/Set displays
(DESIGN: "don't care" everywhere) are "don't care" only as literal data, see LITERAL_ONLY_NODES.
"""
from __future__ import annotations

import ast
import builtins
import collections
import copy
import enum
import io
import itertools
import json
import keyword
import math
import operator
import os
import resource
import select
import signal
import sys
import threading
import time
import types
import unicodedata

from mc import common

import operon_ai.organelles.mitochondria as mito_mod
from operon_ai.organelles.mitochondria import MetabolicPathway, MetabolicResult, Mitochondria, SimpleTool
from operon_ai.core.types import Capability

INF = float("inf")
PATHWAYS = {
    "auto": None,
    "math": MetabolicPathway.GLYCOLYSIS,
    "logic": MetabolicPathway.KREBS_CYCLE,
    "tool": MetabolicPathway.OXIDATIVE,
    "transform": MetabolicPathway.BETA_OXIDATION,
}
PW_ORDER = ("auto", "math", "logic", "tool", "transform")

# --------------------------------------------------------------------------------------------
# engines and tool sets
# --------------------------------------------------------------------------------------------
TOOL_CALLS: list = []  # (tool name, args, kwargs) of every tool body that ran
TOOL_ARGV: list = []   # (positional values, keyword values) the tool bodies received (in-process use only)


def _mk_tool(name, caps=()):
    def body(*a, **k):
        TOOL_CALLS.append((name, len(a), tuple(sorted(k))))
        TOOL_ARGV.append((a, k))
        return ("tool-ran", name)

    return SimpleTool(name=name, description="recording tool", func=body, required_capabilities=set(caps))


TOOLSETS = {
    "none": (),
    "rec": ("rec",),
    # lower-cased name + "(" is a prefix of many probe expressions ('' matches every "(...")
    "prefix": ("ABS", "Max", "Rec", "", "[", "Getattr", "__Import__"),
    # named like allow-listed functions: auto-detection routes abs(...) to the tool pathway
    "shadow": ("abs", "max", "len", "int", "rec"),
    # configuration family (section 2b): tools that declare required capabilities (see TOOL_CAPS)
    "cfg": ("rec", "net", "fs"),
}
TS_ORDER = ("none", "rec", "prefix", "shadow")


def mk_engine(toolset="none", silent=True, max_ros=INF, timeout=5.0):
    m = Mitochondria(timeout_seconds=timeout, max_ros=max_ros, silent=True)
    for n in TOOLSETS[toolset]:
        m.engulf_tool(_mk_tool(n))
    m.silent = silent
    return m


class _StrictUtf8Stdout:
    """Context manager: sys.stdout = strict UTF-8 text stream over /dev/null (what a UTF-8 terminal or
    PYTHONIOENCODING=utf-8 gives); restores afterwards."""

    def __enter__(self):
        self.old = sys.stdout
        self.raw = open(os.devnull, "wb")
        sys.stdout = io.TextIOWrapper(self.raw, encoding="utf-8", errors="strict", write_through=True)
        return self

    def __exit__(self, *exc):
        try:
            sys.stdout.detach()
        except Exception:  # noqa: BLE001
            pass
        sys.stdout = self.old
        self.raw.close()
        return False


def call(engine, expr, pw):
    """One real metabolize call -> ('ok'|'fail'|'raise'|'badtype', detail, value)."""
    del TOOL_CALLS[:]
    del TOOL_ARGV[:]
    try:
        if pw == "auto":
            r = engine.metabolize(expr)
        else:
            r = engine.metabolize(expr, PATHWAYS[pw])
    except BaseException as e:  # noqa: BLE001 - totality: anything that escapes is the finding
        if isinstance(e, (KeyboardInterrupt,)):
            raise
        return ("raise", type(e).__name__, None)
    if not isinstance(r, MetabolicResult):
        return ("badtype", type(r).__name__, None)
    if r.success:
        return ("ok", "", r.atp.value if r.atp is not None else None)
    return ("fail", _errclass(r.error), None)


def call_legacy(engine, expr):
    """One real digest_glucose call (the legacy string-in / string-out entry point, also what BioAgent uses)
    -> ('ok'|'raise'|'badtype', detail, text).  Its contract is a str: the rendered value or a failure text."""
    del TOOL_CALLS[:]
    del TOOL_ARGV[:]
    try:
        r = engine.digest_glucose(expr)
    except BaseException as e:  # noqa: BLE001
        if isinstance(e, (KeyboardInterrupt,)):
            raise
        return ("raise", type(e).__name__, None)
    if not isinstance(r, str):
        return ("badtype", type(r).__name__, None)
    return ("ok", "failure-text" if r.startswith("Metabolic Failure") else "rendered", r)


def pure_literal(expr):
    """Harness-side reference for 'the whole string is literal data' (what the data-transformation pathway is
    documented to parse: JSON or a Python literal).  Written against json / ast directly, not the engine."""
    t = expr.strip()
    try:
        json.loads(t)
        return True
    except Exception:  # noqa: BLE001
        pass
    try:
        ast.literal_eval(t)
        return True
    except Exception:  # noqa: BLE001
        return False


def _errclass(err):
    """Coarse class of a failure message (for the outcome vacuity guard only)."""
    if not err:
        return "?"
    parts = err.split(": ")
    if err.startswith("Metabolic failure") and len(parts) >= 2:
        tail = parts[2][:24] if len(parts) > 2 else ""
        return parts[1] + ":" + tail.split(" ")[0] + " " + " ".join(tail.split(" ")[1:2])
    return err[:20]


import re  # noqa: E402

_ADDR = re.compile(r" at 0x[0-9a-fA-F]+")


def short(v, n=80):
    try:
        s = repr(v)
    except Exception:  # noqa: BLE001
        s = "<unreprable>"
    s = _ADDR.sub(" at 0x..", s)  # object addresses would make messages differ between runs
    return s if len(s) <= n else s[:n] + "..."


# --------------------------------------------------------------------------------------------
# 1a. confinement: forbidden node classes x strict holes x pathways x tool sets
# --------------------------------------------------------------------------------------------
# Allowed expression forms, written from the property text (operators / pure functions+constants /
# literals incl. list+tuple / registered tools).
ALLOWED_NODES = {"Constant", "BinOp", "UnaryOp", "BoolOp", "Compare", "IfExp", "List", "Tuple", "Call", "Name"}
# Dict and Set displays are not among the forms the statement lets a value be COMPUTED from, but they are literal
# data, which the data-transformation pathway is documented to parse (json / ast.literal_eval).  Reading used:
# on the computing pathways (math, logic, tool, and auto unless the whole string is pure literal data) an
# evaluated Dict/Set node is a confinement breach in any strict hole; on the transform pathway it is "don't care".
LITERAL_ONLY_NODES = {"Dict", "Set"}
COMPUTE_PATHWAYS = ("math", "logic", "tool")

# (class the probe stands for, source).  Wherever Python itself can evaluate the probe it yields a
# small recognisable value, so an evaluator that grew support for the construct would succeed.
PROBES = [
    ("Attribute", "(1).real"), ("Attribute", "().__class__"), ("Attribute", "'a'.upper"),
    ("Attribute", "(1.5).imag"), ("Attribute", "abs.__name__"), ("Attribute", "pi.real"),
    ("Attribute", "[].__class__.__base__"),
    ("Subscript", "[1,2][0]"), ("Subscript", "'ab'[0]"), ("Subscript", "(5,6)[1]"), ("Subscript", "{1:2}[1]"),
    ("Slice", "'ab'[::-1]"), ("Slice", "[1,2,3][1:]"), ("Slice", "(1,2,3)[:2]"),
    ("Starred", "max(*[1,2])"), ("Starred", "[*[1,2]]"), ("Starred", "(*[1],)"),
    ("Lambda", "(lambda: 1)()"), ("Lambda", "(lambda x: x)(1)"), ("Lambda", "lambda: 1"),
    ("ListComp", "[x for x in [1]]"), ("ListComp", "[1 for _ in (1,2)]"), ("ListComp", "len([x for x in [1,2]])"),
    ("SetComp", "{x for x in [1]}"), ("SetComp", "len({x for x in [1]})"),
    ("DictComp", "{x: 1 for x in [1]}"), ("DictComp", "len({x: x for x in [1]})"),
    ("GeneratorExp", "sum(x for x in [1])"), ("GeneratorExp", "max((x for x in [1,2]))"),
    ("GeneratorExp", "(x for x in [1])"),
    ("JoinedStr", "f'{1}'"), ("JoinedStr", "f'a'"), ("JoinedStr", "f'{1+1}b'"),
    ("FormattedValue", "f'{1!r:>3}'"), ("FormattedValue", "len(f'{pi}')"),
    ("NamedExpr", "(y := 1)"), ("NamedExpr", "(e := 5)"), ("NamedExpr", "[(y := 2), 1]"),
    ("Await", "await 1"), ("Yield", "(yield)"), ("Yield", "(yield 1)"), ("YieldFrom", "(yield from [1])"),
    ("Call-nonName", "abs.__call__(1)"), ("Call-nonName", "[abs][0](1)"), ("Call-nonName", "(abs if 1 else max)(-1)"),
    ("Call-nonName", "abs(1).__abs__()"), ("Call-nonName", "os.rec(1)"), ("Call-nonName", "rec.execute(1)"),
    ("Call-nonName", "(rec,)[0](1)"),
    ("Name-outside", "__import__('os')"), ("Name-outside", "getattr(1, 'real')"), ("Name-outside", "eval('1')"),
    ("Name-outside", "__builtins__"), ("Name-outside", "undefined_name"), ("Name-outside", "mito_mod"),
    ("Name-outside", "self"), ("Name-outside", "globals()"),
    # literal-only classes (judged on the computing pathways only, see LITERAL_ONLY_NODES)
    ("Dict", "{1: 2}"), ("Dict", "{}"), ("Dict", "{'a': [1, 2]}"), ("Dict", "len({1: 2})"), ("Dict", "{**{1: 2}}"),
    ("Set", "{1, 2}"), ("Set", "len({1, 2})"), ("Set", "{(1, 2), 'a'}"),
]
H = "§"  # hole marker

STRICT1 = [
    "§ + 1", "1 + §", "§ * 2", "2 * §", "§ - 1", "§ / 1", "§ // 1", "§ % 2", "2 ** §", "§ ** 2",
    "-§", "+§", "not §",
    "abs(§)", "max(§, 1)", "max(1, §)", "min(1, 2, §)", "len(§)", "float(§)", "int(§)", "bool(§)",
    "round(§)", "sum(§)", "sqrt(§)",
    "[§]", "[1, §]", "(§,)", "(1, §)",
    "§ and 1", "§ or 1", "1 and §", "0 or §",
    "§ < 2", "1 < §", "§ == 1", "0 < 1 < §", "§ != 1", "§ >= 1",
    "1 if § else 2", "§ if 1 else 2", "2 if 0 else §",
]
TOOLARG1 = ["rec(§)", "rec(1, §)", "rec(k=§)", "abs(§, 1)"]  # outermost only; tool body ran => argument was evaluated
# lazy holes: an evaluator may legitimately skip the hole; success is accepted only with the value
# obtained when the hole is NOT evaluated (bool() of it on the logic pathway)
LAZY1 = [("1 if 1 else §", (1,)), ("0 and §", (0, False)), ("1 or §", (1, True))]
# keyword value of an allow-listed function: Python evaluates it, but an evaluator that ignores keywords
# (this one does; the value mismatch is C02's business) never touches the hole -> same oracle as lazy
KWARG1 = [("round(2.567, ndigits=§)", (3,))]


# one representative per (node class, field) the hole can sit in; used as the INNERMOST level at depth 3:
# the walker dispatches on node class and field, the operator/function identity only selects the table entry
# applied after the operands were evaluated.  Depths 1 and 2 use the full product (which contains the reduced
# one), so the reduction is itself exercised exhaustively at the smaller size.
REPR1 = ["§ + 1", "1 + §", "2 ** §", "-§", "not §", "abs(§)", "max(1, §)", "[§]", "(1, §)", "§ and 1", "0 or §",
         "§ < 2", "0 < 1 < §", "1 if § else 2", "§ if 1 else 2", "2 if 0 else §"]
assert set(REPR1) <= set(STRICT1)


def contexts(depth):
    """-> list of (template, kind, accept) ; kind in strict|toolarg|lazy|kwarg ; one hole each.
    depth 1,2: full product of STRICT1; depth 3: STRICT1 x STRICT1 x REPR1 (innermost reduced)."""
    strict = [H]
    layer = [H]
    for d in range(depth):
        pool = REPR1 if (depth >= 3 and d == 0) else STRICT1
        layer = [o.replace(H, "(" + i + ")") if i != H else o for o in pool for i in layer]
        strict += layer
        if depth >= 3 and d == 0:
            strict += [c for c in STRICT1 if c not in REPR1]
        if depth >= 3 and d == 1:
            # full depth-2 product as well
            strict += [o.replace(H, "(" + i + ")") for o in STRICT1 for i in STRICT1]
    strict = list(dict.fromkeys(strict))
    # tool-arg and lazy wrappers are applied outermost over strict contexts of depth-1
    sub = [H]
    layer = [H]
    for d in range(depth - 1):
        pool = REPR1 if (depth >= 3 and d == 0) else STRICT1
        layer = [o.replace(H, "(" + i + ")") if i != H else o for o in pool for i in layer]
        sub += layer
        if depth >= 3 and d == 0:
            sub += [c for c in STRICT1 if c not in REPR1]
    out = [(c, "strict", None) for c in strict]
    for t in TOOLARG1:
        out += [(t.replace(H, "(" + i + ")") if i != H else t, "toolarg", None) for i in sub]
    for kind, table in (("lazy", LAZY1), ("kwarg", KWARG1)):
        for t, acc in table:
            out += [(t.replace(H, "(" + i + ")") if i != H else t, kind, acc) for i in sub]
    return out


def fill(template, probe):
    return template.replace(H, "(" + probe + ")")


class _Boom(Exception):
    pass


def selfcheck_contexts(ctxs):
    """Argument check, exhaustive over the contexts used: Python itself evaluates every strict /
    tool-arg hole (the hole raising propagates) and skips every lazy hole with the accepted value."""
    def boom(*a, **k):
        raise _Boom()

    ns = {"__builtins__": {}, "abs": abs, "max": max, "min": min, "len": len, "float": float, "int": int,
          "bool": bool, "round": round, "sum": sum, "sqrt": math.sqrt, "boom": boom, "rec": lambda *a, **k: 0}
    n = 0
    for t, kind, acc in ctxs:
        src = t.replace(H, "(boom())")
        n += 1
        try:
            v = eval(src, dict(ns))  # harness-authored template, not the code under test
        except _Boom:
            if kind == "lazy":
                raise common.HarnessError(f"lazy context evaluates its hole in Python: {t}")
            continue
        except Exception as e:  # noqa: BLE001
            raise common.HarnessError(f"context template broken: {t}: {e!r}")
        if kind != "lazy":
            raise common.HarnessError(f"context is not strict in Python: {t} -> {v!r}")
        if v not in acc:
            raise common.HarnessError(f"lazy context value {v!r} not in accept set {acc}: {t}")
    return n


def node_class_table():
    """Discover expression node classes from the running interpreter and map each to a probe."""
    found = sorted(c.__name__ for c in ast.expr.__subclasses__())
    covered = {}
    for cls, src in PROBES:
        tree = ast.parse(src, mode="eval")  # every probe must be syntactically valid
        names = {type(n).__name__ for n in ast.walk(tree)}
        base = cls.split("-")[0]
        if base not in names:
            raise common.HarnessError(f"probe {src!r} does not contain a {base} node")
        for nm in names:
            covered.setdefault(nm, 0)
            covered[nm] += 1
    forbidden = [c for c in found if c not in ALLOWED_NODES]  # incl. the literal-only classes
    unprobed = [c for c in forbidden if c not in covered]
    return found, forbidden, unprobed


def _accept_lazy(value, acc, pw):
    for a in acc:
        if type(value) is type(a) and value == a:
            return True
        if type(value) is bool and value == bool(a):
            return True  # logic pathway (forced or auto-detected) wraps the result in bool()
    return False


def judge_conf(cls, kind, acc, expr, pw, ts, res, detail, value, ran):
    """Confinement oracle for one evaluation of a forbidden probe -> (key, what) | 'lazy-skipped' | 'literal-data' | None."""
    if res in ("raise", "badtype"):
        return (f"raises:{detail}:silent", f"metabolize({expr!r}, pathway={pw}) raised {detail} "
                f"(expected a MetabolicResult)")
    if ran:
        return (f"tool-ran-with-forbidden-arg:{cls}", f"tool body ran for {expr!r} on pathway {pw} "
                f"tools={TOOLSETS[ts]}: its {cls} argument must have been evaluated (expected failure)")
    if res != "ok":
        return None
    if cls in LITERAL_ONLY_NODES and (pw == "transform" or (pw == "auto" and pure_literal(expr))):
        return "literal-data"  # literal parsing of pure literal data: not judged
    if kind in ("lazy", "kwarg") and _accept_lazy(value, acc, pw):
        return "lazy-skipped"
    where = "strict hole" if kind not in ("lazy", "kwarg") else "skippable hole but the value shows it was used"
    return (f"forbidden-evaluated:{cls}:{pw}",
            f"metabolize({expr!r}, pathway={pw}, tools={TOOLSETS[ts]}) succeeded with {short(value)}; the {cls} "
            f"construct sits in a {where} so it was evaluated"
            f"{' on a computing pathway' if cls in LITERAL_ONLY_NODES else ''} (expected a failure result)")


def conf_worker(job):
    """job = (depth, [probe indices]) -> counts / outcomes / violations for those probes."""
    depth, idxs = job
    ctxs = contexts(depth)
    engines = {ts: mk_engine(ts) for ts in TS_ORDER}
    n_eval = 0
    exprs = set()
    outcomes = set()
    viol = {}
    samples = []
    for pi in idxs:
        cls, probe = PROBES[pi]
        for t, kind, acc in ctxs:
            expr = fill(t, probe)
            exprs.add(expr)
            for ts in TS_ORDER:
                eng = engines[ts]
                for pw in PW_ORDER:
                    res, detail, value = call(eng, expr, pw)
                    ran = bool(TOOL_CALLS)
                    n_eval += 1
                    outcomes.add((res, detail if res != "ok" else type(value).__name__, kind, ran))
                    key = judge_conf(cls, kind, acc, expr, pw, ts, res, detail, value, ran)
                    if isinstance(key, str):
                        outcomes.add((key, cls))
                        key = None
                    if key:
                        v = viol.setdefault(key[0], {"what": key[1], "n": 0,
                                                     "case": {"sub": "confinement", "expr": expr, "pw": pw, "ts": ts,
                                                              "cls": cls, "kind": kind, "accept": acc}})
                        v["n"] += 1
        if len(samples) < 2:
            samples.append({"sub": "confinement", "expr": fill(ctxs[min(len(ctxs) - 1, 7 + pi)][0], probe), "cls": cls})
    return {"evals": n_eval, "exprs": len(exprs), "outcomes": outcomes, "viol": viol, "samples": samples,
            "contexts": len(ctxs)}


def replay_confinement(case):
    eng = mk_engine(case["ts"])
    expr, pw, cls, kind = case["expr"], case["pw"], case["cls"], case["kind"]
    res, detail, value = call(eng, expr, pw)
    j = judge_conf(cls, kind, tuple(case.get("accept") or ()), expr, pw, case["ts"], res, detail, value, bool(TOOL_CALLS))
    return [j] if isinstance(j, tuple) else []


# --------------------------------------------------------------------------------------------
# 1b. confinement: name universe (audit hook, canaries, dangerous-builtin signatures)
# --------------------------------------------------------------------------------------------
# pure functions/constants the property text and class docstring document as allow-listed
DOCUMENTED_PURE = {
    "abs", "round", "min", "max", "sum", "len", "int", "float", "bool", "sqrt", "sin", "cos", "tan", "asin",
    "acos", "atan", "atan2", "sinh", "cosh", "tanh", "log", "log10", "log2", "exp", "pow", "ceil", "floor",
    "trunc", "factorial", "gcd", "degrees", "radians", "pi", "e", "tau", "inf",
}
# names whose behaviour IS attribute access / subscripting / code execution / import / IO / namespace
# access (introspection helpers such as type/id/isinstance/iter are NOT in the statement's forbidden list: if
# ever accepted they are listed as unvetted_names, not judged).  'sig' = (args -> expected value) for the pure ones so that "succeeded with the signature value"
# is a witnessed behaviour; None = any success of a call is the witness.
_ITEMS = [1, 2]
DANGEROUS = {
    # attribute access / namespace access
    "getattr": {"(1, 'real')": 1}, "hasattr": {"(1, 'real')": True}, "setattr": None, "delattr": None,
    "vars": None, "dir": None, "globals": None, "locals": None, "__getattr__": None, "__getattribute__": None,
    "attrgetter": None, "methodcaller": None,
    # subscripting
    "getitem": None, "setitem": None, "delitem": None, "itemgetter": None, "__getitem__": None,
    "__setitem__": None, "__delitem__": None,
    # code execution / import / IO / process control (not pure)
    "eval": {"('1+1')": 2}, "exec": None, "compile": None, "__import__": None, "__build_class__": None,
    "open": None, "input": None, "print": None, "breakpoint": None, "help": None, "exit": None, "quit": None,
}
SHAPES = [None, (), (1,), ("os",), (1, "real"), ("1+1",), ([1, 2],)]  # None = bare name


class _NoValue:
    def __repr__(self):
        return "<value not observable>"


NOVAL = _NoValue()
# Placements of a name-universe probe: the root plus strict holes of the allowed display / call forms (list and
# tuple elements, arguments of an allow-listed function, positional / nested / keyword arguments of a registered
# tool).  Second item: how the hole's value is recovered from the result (or from what the tool body received),
# None = not recoverable (success still shows the hole was evaluated).
NAME_HOLES = [
    (H, lambda v, argv: v),
    ("[§]", lambda v, argv: v[0]),
    ("(1, §)", lambda v, argv: v[1]),
    ("[1, (§,)]", lambda v, argv: v[1][0]),
    ("len([§])", None),
    ("bool(§)", None),
    ("rec(§)", lambda v, argv: argv[-1][0][0]),
    ("rec(1, [§])", lambda v, argv: argv[-1][0][1][0]),
    ("rec(k=(§,))", lambda v, argv: argv[-1][1]["k"][0]),
]
NAME_HOLE_FN = dict(NAME_HOLES)


def place_name(template, expr):
    return expr if template == H else template.replace(H, expr)


def hole_value(template, res, value):
    """-> (hole_ok, hole value | NOVAL): was the probe in the hole evaluated successfully, and to what."""
    tool_ctx = template.startswith("rec(")
    if tool_ctx:
        if not TOOL_CALLS:
            return False, NOVAL  # the tool body did not run: the argument was refused (or the call was)
        try:
            return True, NAME_HOLE_FN[template](value, TOOL_ARGV)
        except Exception:  # noqa: BLE001 - the argument did not arrive: the hole was skipped, nothing witnessed
            return False, NOVAL
    if res != "ok":
        return False, NOVAL
    fn = NAME_HOLE_FN[template]
    if fn is None:
        return True, NOVAL
    try:
        return True, fn(value, TOOL_ARGV)
    except Exception:  # noqa: BLE001 - result does not have the display's shape (e.g. bool() on the logic pathway)
        return True, NOVAL


def name_universe():
    names = set(dir(builtins)) | set(dir(math)) | set(dir(operator)) | set(keyword.kwlist) | set(keyword.softkwlist)
    names |= set(dir(mito_mod)) | set(dir(Mitochondria)) | set(vars(Mitochondria(silent=True)))
    names |= set(sys.builtin_module_names) | {"os", "sys", "subprocess", "socket", "importlib", "pathlib", "shutil"}
    names |= {"self", "cls", "mito", "engine", "node", "tree", "expression", "tool", "tools", "x", "y", "_", "__",
              "__builtins__", "__import__", "__class__", "__dict__", "__globals__", "__subclasses__", "__mro__",
              "__name__", "__file__", "__loader__", "__spec__", "__doc__", "__code__", "__closure__", "rec",
              "SAFE_FUNCTIONS", "true", "false", "none", "null", "nan", "NaN", "Infinity"}
    names = {n for n in names if n.isidentifier() and not keyword.iskeyword(n)} | {"True", "False", "None"}
    # identifiers that NFKC-normalise (as the parser does) to a dangerous/allow-listed name
    fancy = {}
    for n in ("__import__", "getattr", "eval", "exec", "open", "abs"):
        f = "".join(chr(0x1D41A + ord(c) - 97) if "a" <= c <= "z" else c for c in n)  # mathematical bold
        if unicodedata.normalize("NFKC", f) == n:
            fancy[f] = n
    return sorted(names), fancy


def _argsrc(shape):
    return "(" + ", ".join(repr(a) for a in shape) + ")"


_AUDIT_ON = [False]
_AUDIT_LOG: list = []
_AUDIT_INSTALLED = [False]
_WATCHED_PREFIX = ("os.", "subprocess.", "socket.", "shutil.", "ctypes.", "pty.", "urllib.", "http.", "ftplib.",
                   "glob.", "tempfile.", "webbrowser.", "sqlite3.", "winreg.", "mmap.", "fcntl.", "resource.",
                   "signal.", "syslog.", "marshal.", "pickle.", "code.", "cpython.", "sys.")
_WATCHED = {"exec", "import", "open", "builtins.input", "builtins.breakpoint", "builtins.id", "setopencodehook"}


def _audit(event, args):
    if not _AUDIT_ON[0]:
        return
    if event in _WATCHED or event.startswith(_WATCHED_PREFIX):
        _AUDIT_LOG.append(event)


def install_audit():
    if not _AUDIT_INSTALLED[0]:
        sys.addaudithook(_audit)
        _AUDIT_INSTALLED[0] = True


class Canary:
    """Snapshot of everything a confined evaluator cannot change."""

    def __init__(self, engines):
        self.engines = engines
        self.mod_keys = set(vars(mito_mod))
        self.cls_keys = set(vars(Mitochondria))
        self.safe = dict(Mitochondria.SAFE_FUNCTIONS)
        self.eng_keys = [set(vars(e)) for e in engines]
        self.tools = [dict(e.tools) for e in engines]
        self.bkeys = len(vars(builtins))
        self.cwd = os.getcwd()
        self.nmods = None

    def changed(self):
        out = []
        if set(vars(mito_mod)) != self.mod_keys:
            out.append("module-globals")
        if set(vars(Mitochondria)) != self.cls_keys:
            out.append("class-attributes")
        if Mitochondria.SAFE_FUNCTIONS != self.safe:
            out.append("allow-list-table")
        for e, k, t in zip(self.engines, self.eng_keys, self.tools):
            if set(vars(e)) != k:
                out.append("engine-attributes")
            if e.tools != t:
                out.append("tool-registry")
        if len(vars(builtins)) != self.bkeys:
            out.append("builtins")
        if os.getcwd() != self.cwd:
            out.append("cwd")
        return out


def _namespace_like(v):
    if isinstance(v, types.ModuleType):
        return "module"
    if isinstance(v, dict) and any(callable(x) or isinstance(x, types.ModuleType) for x in list(v.values())[:400]):
        return "namespace-dict"
    return None


def judge_name(name, canon, shape, res, value, documented):
    """Oracle for one name-universe evaluation -> (key, what) | None | ('unvetted', name)."""
    if res != "ok":
        return None
    if shape is None:
        kind = _namespace_like(value)
        if kind:
            return (f"name-resolves-to-{kind}:{canon}", f"bare name {name!r} evaluated to {short(value)}")
        if canon in DANGEROUS and callable(value):
            return (f"name-resolves-to-dangerous-builtin:{canon}", f"bare name {name!r} evaluated to {short(value)}")
        if canon not in documented and canon not in ("True", "False", "None"):
            return ("unvetted", canon)
        return None
    if canon in DANGEROUS:
        sig = DANGEROUS[canon]
        if sig is None:
            return (f"dangerous-builtin-callable:{canon}", f"{name}{_argsrc(shape)} succeeded with {short(value)}")
        for k, want in sig.items():
            if k == _argsrc(shape):
                if value is NOVAL:
                    return ("unvetted", canon + ":value-not-observable")
                if value is want or (type(value) is type(want) and value == want):
                    return (f"dangerous-builtin-callable:{canon}",
                            f"{name}{_argsrc(shape)} returned {short(value)}, the value Python's {canon} gives")
                return ("unvetted", canon + ":rebound")
        return ("unvetted", canon + ":other-shape")
    kind = _namespace_like(value)
    if kind:
        return (f"call-returns-{kind}:{canon}", f"{name}{_argsrc(shape)} returned {short(value)}")
    if canon not in documented:
        return ("unvetted", canon)
    return None


def judge_nested(canon, template, expr, pw, hole_ok, root_res, toolnames):
    """Position-independence of the allow-list: a name (call shape) that the engine itself refuses at the root of
    BOTH walker pathways and that the documentation does not list either is outside the allow-list on every
    account; if the same text is evaluated successfully inside a strict hole on a computing pathway, a name
    outside the allow-list was looked up / called there.  (auto with a pure-literal string, and the transform
    pathway, are literal parsing: not judged.)"""
    if template == H or not hole_ok:
        return None
    if pw == "transform" or (pw == "auto" and pure_literal(expr)):
        return None
    if root_res.get("math") != "fail" or root_res.get("logic") != "fail":
        return None
    if canon in DOCUMENTED_PURE or canon in toolnames or canon in ("True", "False", "None"):
        return None
    return (f"refused-name-evaluated-nested:{canon}:{pw}",
            f"metabolize({expr!r}, pathway={pw}) evaluated its {template!r} hole successfully although the same "
            f"text is refused at the root of the math and logic pathways and {canon!r} is not a documented "
            f"allow-listed name: name lookup outside the allow-list (expected a failure result)")


def names_worker(job):
    names, fancy = job
    install_audit()
    devnull = os.open(os.devnull, os.O_RDONLY)
    os.dup2(devnull, 0)  # a leaked input()/help() must not block on the terminal
    sys.breakpointhook = lambda *a, **k: None
    engines = {ts: mk_engine(ts) for ts in ("none", "rec")}
    canary = Canary(list(engines.values()))
    n_eval = 0
    outcomes = set()
    viol = {}
    unvetted = set()
    accepted = set()

    def add(key, what, case):
        v = viol.setdefault(key, {"what": what, "n": 0, "case": case})
        v["n"] += 1

    toolnames = {ts: set(TOOLSETS[ts]) for ts in engines}
    for name in names:
        canon = fancy.get(name, name)
        for shape in SHAPES:
            probe = name if shape is None else name + _argsrc(shape)
            for ts, eng in engines.items():
                root_res = {}
                for template, _ in NAME_HOLES:
                    expr = place_name(template, probe)
                    at_root = template == H
                    addressed = template.startswith("rec(") or (name == "rec" and shape is not None)
                    for pw in PW_ORDER:
                        mods_before = len(sys.modules)
                        del _AUDIT_LOG[:]
                        _AUDIT_ON[0] = True
                        try:
                            res, detail, value = call(eng, expr, pw)
                        finally:
                            _AUDIT_ON[0] = False
                        n_eval += 1
                        case = {"sub": "names", "name": name, "canon": canon, "shape": shape, "pw": pw, "ts": ts,
                                "hole": template}
                        outcomes.add((res, detail if res != "ok" else type(value).__name__, shape is None, at_root))
                        if res in ("raise", "badtype"):
                            add(f"raises:{detail}:silent", f"metabolize({expr!r}, pathway={pw}) raised {detail}", case)
                        if _AUDIT_LOG:
                            ev = sorted(set(_AUDIT_LOG))
                            add(f"audit-event:{ev[0].split('.')[0]}:{canon}",
                                f"metabolize({expr!r}, pathway={pw}) triggered audit events {ev[:6]}", case)
                        if len(sys.modules) != mods_before:
                            add(f"module-imported:{canon}", f"metabolize({expr!r}, pathway={pw}) grew sys.modules", case)
                        ch = canary.changed()
                        if ch:
                            add(f"canary-changed:{ch[0]}:{canon}", f"metabolize({expr!r}, pathway={pw}) changed {ch}", case)
                            canary = Canary(list(engines.values()))
                        if TOOL_CALLS and not (pw in ("auto", "tool") and addressed):
                            add(f"tool-ran-unaddressed:{pw}", f"tool body ran for {expr!r} on pathway {pw}", case)
                        if at_root:
                            root_res[pw] = res
                            hole_ok, hv = res == "ok", value
                        else:
                            hole_ok, hv = hole_value(template, res, value)
                        j = judge_name(name, canon, shape, "ok" if hole_ok else "fail", hv, DOCUMENTED_PURE)
                        if j and j[0] == "unvetted":
                            if at_root:
                                unvetted.add(j[1])
                        elif j:
                            add(j[0], j[1] + (f" (pathway {pw}; expected a failure result)" if at_root else
                                              f" inside {expr!r} (pathway {pw}; expected a failure result)"), case)
                        jn = judge_nested(canon, template, expr, pw, hole_ok, root_res, toolnames[ts])
                        if jn:
                            outcomes.add(("refused-at-root-evaluated-nested", pw))
                            add(jn[0], jn[1], case)
                        if hole_ok:
                            accepted.add(canon)
    return {"evals": n_eval, "outcomes": outcomes, "viol": viol, "unvetted": unvetted, "accepted": accepted}


def replay_names(case):
    install_audit()
    eng = mk_engine(case["ts"])
    name, canon, pw = case["name"], case["canon"], case["pw"]
    template = case.get("hole", H)
    shape = case["shape"]
    shape = None if shape is None else tuple(list(a) if isinstance(a, tuple) else a for a in shape)
    probe = name if shape is None else name + _argsrc(shape)
    expr = place_name(template, probe)
    root_res = {p: call(eng, probe, p)[0] for p in ("math", "logic")}
    canary = Canary([eng])
    del _AUDIT_LOG[:]
    _AUDIT_ON[0] = True
    try:
        res, detail, value = call(eng, expr, pw)
    finally:
        _AUDIT_ON[0] = False
    out = []
    if res in ("raise", "badtype"):
        out.append((f"raises:{detail}:silent", f"metabolize({expr!r}, {pw}) raised {detail}"))
    if _AUDIT_LOG:
        ev = sorted(set(_AUDIT_LOG))
        out.append((f"audit-event:{ev[0].split('.')[0]}:{canon}", f"audit events {ev[:6]}"))
    ch = canary.changed()
    if ch:
        out.append((f"canary-changed:{ch[0]}:{canon}", f"changed {ch}"))
    addressed = template.startswith("rec(") or (name == "rec" and shape is not None)
    if TOOL_CALLS and not (pw in ("auto", "tool") and addressed):
        out.append((f"tool-ran-unaddressed:{pw}", f"tool body ran for {expr!r} on pathway {pw}"))
    hole_ok, hv = (res == "ok", value) if template == H else hole_value(template, res, value)
    j = judge_name(name, canon, shape, "ok" if hole_ok else "fail", hv, DOCUMENTED_PURE)
    if j and j[0] != "unvetted":
        out.append(j)
    jn = judge_nested(canon, template, expr, pw, hole_ok, root_res, set(TOOLSETS[case["ts"]]))
    if jn:
        out.append(jn)
    return out


# --------------------------------------------------------------------------------------------
# 1c. string-level pathway tricks (not reachable as "probe in context")
# --------------------------------------------------------------------------------------------
def trick_strings():
    """(expr, class) — every one contains a forbidden construct; success is a violation."""
    out = []
    for p in ("[1,2][0]", "{1:2}[1]", "[x for x in [1]]", "{x for x in [1]}", "{x: 1 for x in [1]}", " [1][0]",
              "\t{1:2}[1]", "[].__class__", "{}.get", "[*[1]]", "[f'{1}']", "[(lambda: 1)()]", "{1: (1).real}",
              "[__import__('os')]", "{'a': getattr(1,'real')}", "[1, eval('1')]"):
        out.append((p, "leading-bracket"))
    for p in ("REC((1).real)", "Rec([1][0])", "rec ((1).real)", "rec((1).real)", "rec(1)[0]", "rec(1).real",
              "rec(*[1])", "rec(**{'a': 1}) .real", "ABS((1).real)", "abs((1).real)", "max([1][0], 1)",
              "([1][0])", "((1).real)", "__import__('os')", "getattr(1,'real')"):
        out.append((p, "tool-prefix"))
    for p in ("'true'[0]", "truex.real", "xfalse[0]", "(1).real < true", "[1][0] and true", "not [1][0]",
              "(1).real == 1", "True.real", "False[0]", "true.real", "'False'.upper", "(lambda: true)()",
              "f'{true}'", "[x for x in [true]]", "1 < (y := 2)", "(1).real or false"):
        out.append((p, "logic-rewrite"))
    for p in ("(1).real\x00", "\x00(1).real", "[1][0]\n", "\n(1).real", "(1).real # x", "(1).real;", "(1).real\\\n",
              "﻿(1).real", "(1).real" + " " * 9000, " " * 9990 + "(1).real", "(1).real+" + "1+" * 4990 + "1",
              "[" + "1," * 4990 + "1][0]", "(" * 60 + "(1).real" + ")" * 60):
        out.append((p, "layout"))
    return out


def tricks_worker(job):
    items = job
    engines = {ts: mk_engine(ts) for ts in TS_ORDER}
    n = 0
    outcomes = set()
    viol = {}
    for expr, cls in items:
        for ts in TS_ORDER:
            for pw in PW_ORDER:
                res, detail, value = call(engines[ts], expr, pw)
                n += 1
                outcomes.add((res, detail if res != "ok" else type(value).__name__, cls))
                case = {"sub": "tricks", "expr": expr, "pw": pw, "ts": ts, "cls": cls}
                if res in ("raise", "badtype"):
                    v = viol.setdefault(f"raises:{detail}:silent", {"what": f"metabolize({short(expr)}, {pw}) raised "
                                                                            f"{detail}", "n": 0, "case": case})
                    v["n"] += 1
                elif res == "ok" or TOOL_CALLS:
                    v = viol.setdefault(f"forbidden-evaluated:trick-{cls}:{pw}", {
                        "what": f"metabolize({short(expr)}, pathway={pw}, tools={TOOLSETS[ts]}) "
                                f"{'succeeded with ' + short(value) if res == 'ok' else 'ran a tool body'}; the string "
                                f"contains a forbidden construct in a strict position (expected a failure result)",
                        "n": 0, "case": case})
                    v["n"] += 1
    return {"evals": n, "outcomes": outcomes, "viol": viol}


def replay_tricks(case):
    r = tricks_worker([(case["expr"], case["cls"])])
    return [(k, v["what"]) for k, v in r["viol"].items()]


# --------------------------------------------------------------------------------------------
# forked children (crash isolation for totality, kernel-enforced CPU deadline for the resource clause)
# --------------------------------------------------------------------------------------------
AS_LIMIT = 4 << 30
WALL_BACKSTOP = 90.0  # only guards against a child that neither burns CPU nor exits (never the verdict)


def _child_main(fn, arg, cpu_s, wfd):
    try:
        resource.setrlimit(resource.RLIMIT_AS, (AS_LIMIT, AS_LIMIT))
        if cpu_s:
            resource.setrlimit(resource.RLIMIT_CPU, (cpu_s, cpu_s + 2))
        resource.setrlimit(resource.RLIMIT_CORE, (0, 0))
        signal.signal(signal.SIGXCPU, signal.SIG_DFL)
        dn = os.open(os.devnull, os.O_RDONLY)
        os.dup2(dn, 0)
        out = fn(arg)
        data = json.dumps(common.jsonable(out)).encode()
        os.write(wfd, data) if len(data) < 60000 else _write_all(wfd, data)
        os._exit(0)
    except BaseException as e:  # noqa: BLE001
        try:
            os.write(wfd, json.dumps({"__child_exception__": f"{type(e).__name__}: {e}"[:500]}).encode())
        except BaseException:  # noqa: BLE001
            pass
        os._exit(3)


def _write_all(fd, data):
    while data:
        n = os.write(fd, data)
        data = data[n:]


def run_children(fn, args, cpu_s, par):
    """Run fn(arg) for every arg in its own forked child, `par` at a time (cpu_s: one limit or one per arg).
    -> list of (status, payload): ('done', result) | ('signal', signo) | ('exit', code) | ('stuck', None)."""
    args = list(args)
    results = [None] * len(args)
    live = {}  # pid -> (idx, rfd, t0, buf)
    nxt = 0
    while nxt < len(args) or live:
        while nxt < len(args) and len(live) < par:
            rfd, wfd = os.pipe()
            sys.stdout.flush()
            pid = os.fork()
            if pid == 0:
                os.close(rfd)
                _child_main(fn, args[nxt], cpu_s[nxt] if isinstance(cpu_s, (list, tuple)) else cpu_s, wfd)
            os.close(wfd)
            os.set_blocking(rfd, False)
            live[pid] = [nxt, rfd, time.time(), b""]
            nxt += 1
        rl, _, _ = select.select([v[1] for v in live.values()], [], [], 0.25)
        now = time.time()
        for pid in list(live):
            idx, rfd, t0, buf = live[pid]
            eof = False
            if rfd in rl:
                while True:
                    try:
                        chunk = os.read(rfd, 1 << 16)
                    except BlockingIOError:
                        break
                    if not chunk:
                        eof = True
                        break
                    live[pid][3] = buf = buf + chunk
            stuck = now - t0 > WALL_BACKSTOP
            if not eof and not stuck:
                continue
            if stuck:
                try:
                    os.kill(pid, signal.SIGKILL)
                except ProcessLookupError:
                    pass
            _, st = os.waitpid(pid, 0)
            os.close(rfd)
            del live[pid]
            if stuck:
                results[idx] = ("stuck", None)
            elif os.WIFSIGNALED(st):
                results[idx] = ("signal", os.WTERMSIG(st))
            else:
                code = os.WEXITSTATUS(st)
                try:
                    payload = json.loads(buf.decode()) if buf else None
                except ValueError:
                    payload = None
                if code == 0 and payload is not None:
                    results[idx] = ("done", common.unjson(payload))
                else:
                    results[idx] = ("exit", (code, payload))
    return results


# --------------------------------------------------------------------------------------------
# 2. totality: hostile strings, both `silent` settings, crash isolation, ROS latch histories
# --------------------------------------------------------------------------------------------
SUR = "\ud800"
SUR2 = "\udfff"


def hostile_strings():
    """(tag, string).  tag 'deep*' strings run alone in a child (a C-stack overflow must not take the
    harness down and must be attributed)."""
    L = mito_mod.MAX_EXPRESSION_LENGTH if isinstance(getattr(mito_mod, "MAX_EXPRESSION_LENGTH", None), int) else 10000
    out = [
        ("surrogate", f"'{SUR}'"), ("surrogate", SUR), ("surrogate", f"'{SUR2}' + 'a'"), ("surrogate", f"a{SUR}"),
        ("surrogate", f"len('{SUR}')"), ("surrogate", f"'{SUR}' == '{SUR}'"), ("surrogate", f"['{SUR}']"),
        ("surrogate", f"{{\"k\": \"{SUR}\"}}"), ("surrogate", f"rec('{SUR}')"), ("surrogate", f"true and '{SUR2}'"),
        ("surrogate-late", "1 + " * 20 + f"len('{SUR}')"), ("surrogate-late", " " * 60 + f"'{SUR}'"),
        ("surrogate-overlong", f"'{SUR}'" + " " * (L + 1)),
        ("unicode", "'\U0001f600'"), ("unicode", "'€' * 3"), ("unicode", "１+１"), ("unicode", "'\x7f\x80\xff'"),
        ("unicode", "﻿1"), ("unicode", "'\\N{BULLET}'"), ("unicode", "'\\ud800'"), ("unicode", " "),
        ("empty", ""), ("empty", " "), ("empty", "\t\n"), ("empty", "\n"), ("empty", "#"), ("empty", "()"),
        ("nul", "\x00"), ("nul", "1+\x001"), ("nul", "'\x00'"), ("nul", "[\x00]"), ("nul", "rec(\x00)"),
        ("syntax", "1 +"), ("syntax", "'abc"), ("syntax", "'''"), ("syntax", "1\n2"), ("syntax", ")("),
        ("syntax", "1 2"), ("syntax", "*"), ("syntax", "lambda"), ("syntax", "a = 1"), ("syntax", "import os"),
        ("syntax", "1;2"), ("syntax", "\\"), ("syntax", "0777"), ("syntax", "1__0"), ("syntax", "{"), ("syntax", "["),
        ("syntax", "rec("), ("syntax", "rec(1"), ("syntax", "[1,"), ("syntax", "{\"a\":"), ("syntax", "f'{'"),
        ("numeric", "1/0"), ("numeric", "1//0"), ("numeric", "1%0"), ("numeric", "0**-1"), ("numeric", "1e999"),
        ("numeric", "1e308*10"), ("numeric", "2.0**10000"), ("numeric", "sqrt(-1)"), ("numeric", "log(0)"),
        ("numeric", "factorial(-1)"), ("numeric", "factorial(1.5)"), ("numeric", "int('x')"), ("numeric", "float('x')"),
        ("numeric", "int(inf)"), ("numeric", "int(inf-inf)"), ("numeric", "round(inf)"), ("numeric", "exp(1000)"),
        ("numeric", "9" * 4301), ("numeric", "9" * 4300), ("numeric", "int('" + "9" * 4301 + "')"),
        ("numeric", "(-8)**0.5"), ("numeric", "1j*1j"), ("numeric", "max()"), ("numeric", "max([])"),
        ("numeric", "sum(1)"), ("numeric", "len(1)"), ("numeric", "abs('a')"), ("numeric", "'a'+1"),
        ("numeric", "[1]<'a'"), ("numeric", "None+1"), ("numeric", "...+1"), ("numeric", "b'a'+'a'"),
        ("numeric", "gcd(1.5, 2)"), ("numeric", "atan2(1)"), ("numeric", "pi()"), ("numeric", "abs(1)(2)"),
        ("numeric", "round(1, 2, 3)"), ("numeric", "-'a'"), ("numeric", "not"), ("numeric", "1 if else 2"),
        ("ok", "1+1"), ("ok", "2 < 3"), ("ok", "true and false"), ("ok", "[1, 2]"), ("ok", "{\"a\": 1}"),
        ("ok", "rec(1, k=2)"), ("ok", "sqrt(16) + pi"), ("ok", "'a' * 3"), ("ok", "max([1, 2, 3])"),
        ("length", "1" * L), ("length", "1" * (L + 1)), ("length", "1+" * (L // 2 - 1) + "1"), ("length", " " * (L + 1)),
        ("length", "'" + "a" * (L - 2) + "'"), ("length", "[" + "1," * (L // 2 - 1) + "]"), ("length", "x" * 100000),
        ("length", "rec(" + "1," * (L // 2 - 3) + "1)"), ("length", "9" * (3 * L)),
    ]
    half = (L - 1) // 2
    deep = [
        ("deep-unary", "-" * (L - 1) + "1"), ("deep-not", "not " * ((L - 1) // 4) + "1"),
        ("deep-paren", "(" * half + "1" + ")" * half), ("deep-binop", "1+" * half + "1"),
        ("deep-binop-right", "2**" * ((L - 1) // 3) + "1"), ("deep-list", "[" * half + "]" * half),
        ("deep-tuple", "(" * (half - 1) + "1," + ")" * (half - 1)), ("deep-dict", "{\"a\":" * (L // 6) + "1" + "}" * (L // 6)),
        ("deep-call", "abs(" * ((L - 1) // 5) + "1" + ")" * ((L - 1) // 5)),
        ("deep-compare", "1<" * half + "1"), ("deep-ifexp", "1 if 1 else " * ((L - 1) // 12) + "1"),
        ("deep-bool", "1 and " * ((L - 1) // 6) + "1"), ("deep-tool", "rec(" + "(" * (half - 3) + "1" + ")" * (half - 3) + ")"),
        ("deep-json", "[" * half + "1" + "]" * half), ("deep-paren-200", "(" * 200 + "1" + ")" * 200),
        ("deep-list-990", "[" * 990 + "]" * 990), ("deep-unary-990", "-" * 990 + "1"),
    ]
    return out, deep


WIDE_CHARS = [("2-byte", "\u00e9"), ("3-byte", "\u20ac"), ("4-byte", "\U0001f600"), ("lone-hi", SUR), ("lone-lo", SUR2)]
# expression shapes a swept character is embedded in: (head, closer).  Valid call of an allow-listed function
# (succeeds on math), a bare token run (fails everywhere), a tool call (auto-routed to the tool pathway),
# JSON / literal data (succeeds on transform), a comparison (auto-routed to logic)
SWEEP_SHAPES = [("len('", "')"), ("", ""), ("rec('", "')"), ('["', '"]'), ("'' < '", "'")]


def positional_sweep(tier):
    """Every wide / unencodable character class at every offset 0..N of the expression, so that it sits before,
    astride and after any fixed-width preview / truncation point (echo, error context, error message) whether
    that point is counted in characters or in encoded bytes: ASCII filler puts the character at byte offset ==
    character offset; filler made of the character itself puts multiples of its encoded width (and of its
    escape's width) at every boundary.  Three total lengths per offset (character last, a short tail, a tail long
    enough to push the total beyond the next boundary)."""
    n_off = 72 if tier == "quick" else 136
    out = []
    for cname, ch in WIDE_CHARS:
        for head, closer in SWEEP_SHAPES:
            for fill in ("a", ch):
                for k in range(n_off - len(head)):
                    for tail in (0, 3, 64):
                        out.append(("sweep-" + cname, head + fill * k + ch + "a" * tail + closer))
    # the same around the length guard (counted in characters by the statement's "length limit")
    L = mito_mod.MAX_EXPRESSION_LENGTH if isinstance(getattr(mito_mod, "MAX_EXPRESSION_LENGTH", None), int) else 10000
    for cname, ch in WIDE_CHARS:
        for total in (L - 1, L, L + 1):
            for back in range(0, 6):
                body = total - len("len('')")
                if body - 1 - back >= 0:
                    out.append(("sweep-limit-" + cname, "len('" + "a" * (body - 1 - back) + ch + "a" * back + "')"))
    return list(dict.fromkeys(out))


def awkward_results():
    """Expressions whose evaluation SUCCEEDS with a value that is awkward to carry or render: integers around the
    interpreter's int->str digit limit, non-finite floats, long strings, deep / wide containers, odd constants."""
    lim = sys.get_int_max_str_digits() if hasattr(sys, "get_int_max_str_digits") else 4300
    lim = lim or 4300
    out = []
    for d in sorted({lim - 1, lim, lim + 1, lim + 700, 2 * lim, 9999}):
        one = f"10**{d - 1}"  # exactly d decimal digits
        out += [one, "-" + one, f"{one} - 1", f"[{one}]", f"(1, {one})", f"[[{one}], 0]", f"abs(-{one})", f"max({one}, 1)",
                f"{one} > 0"]
    out += ["factorial(1500)", "factorial(1600)", "2**14284", "2**14285", "2**100000", "int('9' * 4000)",
            "inf", "-inf", "inf - inf", "[inf, inf - inf]", "(inf,)", "1e308 * 10", "float('nan')", "float('-inf')",
            "1e308", "5e-324", "-0.0", "1j * 1j", "1e400j",
            "'a' * 9000", "'ab' * 1000000", "['a' * 5000] * 3", "'\\' * 5000", "'\n' * 100", "'\x00' * 10", "b'\xff' * 3",
            "'\u20ac' * 5000", "'\U0001f600' * 60",
            "[[0] * 1000] * 1000", "(0,) * 100000", "[[]] * 100000", "[1, 'a', (2.5, None), [True, ...]]",
            "None", "...", "True", "()", "[]", "''", "b''"]
    for d in (50, 150, 300):
        out += ["[" * d + "1" + "]" * d, "(" * d + "1" + ",)" * d, "[(" * (d // 2) + "0" + ",)]" * (d // 2)]
    return [("render", e) for e in dict.fromkeys(out)]


ROS_MAX_STATES = 20000  # the pinned tree has < 500; a tree whose instances grow hidden state is capped, not waited for
ENTRY_POINTS = ("metabolize", "digest_glucose")  # every public method of the engine that takes an expression string


def totality_worker(items):
    """items: [(tag, expr)] -> every entry point x (silent, tool set in none/rec) x pathway (where the entry point
    has a pathway argument) on fresh-enough engines."""
    n = 0
    outcomes = set()
    viol = {}
    with _StrictUtf8Stdout():
        engines = {(s, ts): mk_engine(ts, silent=s) for s in (True, False) for ts in ("none", "rec")}
        for tag, expr in items:
            for (silent, ts), eng in engines.items():
                for pw in PW_ORDER:
                    res, detail, value = call(eng, expr, pw)
                    n += 1
                    outcomes.add((res, detail if res != "ok" else type(value).__name__, silent))
                    if res in ("raise", "badtype"):
                        key = f"raises:{detail}:{'silent' if silent else 'nonsilent'}"
                        v = viol.setdefault(key, {
                            "what": f"Mitochondria(silent={silent}).metabolize({short(expr, 60)}, pathway={pw}) raised "
                                    f"{detail} to the caller (stdout is a strict UTF-8 stream); expected a MetabolicResult",
                            "n": 0, "case": {"sub": "totality", "expr": expr, "tag": tag}})
                        v["n"] += 1
                res, detail, value = call_legacy(eng, expr)
                n += 1
                outcomes.add(("legacy", res, detail, silent))
                if res in ("raise", "badtype"):
                    key = f"raises:digest_glucose:{detail}"
                    v = viol.setdefault(key, {
                        "what": f"Mitochondria(silent={silent}).digest_glucose({short(expr, 60)}) "
                                f"{'raised ' + detail + ' to the caller' if res == 'raise' else 'returned a ' + detail}; "
                                f"expected a str (the rendered value or its 'Metabolic Failure: ...' text)",
                        "n": 0, "case": {"sub": "totality", "expr": expr, "tag": tag}})
                    v["n"] += 1
    return {"evals": n, "outcomes": sorted(outcomes, key=repr), "viol": viol}


def run_totality_children(deep, par):
    """each crash-prone string alone in a child; a dead child is a finding attributed to that string."""
    res = run_children(totality_worker, [[d] for d in deep], 0, par)
    out = {"evals": 0, "outcomes": set(), "viol": {}}
    for (tag, expr), (status, payload) in zip(deep, res):
        if status == "done":
            out["evals"] += payload["evals"]
            out["outcomes"] |= {tuple(o) for o in payload["outcomes"]}
            for k, v in payload["viol"].items():
                t = out["viol"].setdefault(k, dict(v))
                if t is not v:
                    t["n"] += v["n"]
        elif status == "stuck":
            raise common.HarnessError(f"totality child for {tag} neither finished nor died within {WALL_BACKSTOP}s")
        else:
            what = f"signal {payload}" if status == "signal" else f"exit {payload}"
            out["outcomes"].add(("child-died", status, tag))
            key = f"interpreter-crash:{tag}:{'sig' + str(payload) if status == 'signal' else 'exit'}"
            out["viol"].setdefault(key, {"what": f"metabolize of the {tag} string ({len(expr)} chars) killed the "
                                                 f"interpreter ({what}) instead of returning a failure result",
                                         "n": 0, "case": {"sub": "totality-child", "expr": expr, "tag": tag}})["n"] += 1
    return out


# ---- name-independent state handling (clone / fingerprint an implementation object without knowing its fields) ----
# The harness must not know HOW the engine stores its state (which private attributes, whether counters live in a
# nested private dataclass, list or deque...).  Everything below walks vars(obj) recursively and decides by TYPE.
_LOCK_TYPES = (type(threading.Lock()), type(threading.RLock()))
_ATOM_TYPES = (type(None), bool, int, float, complex, str, bytes, range, type(Ellipsis), type(NotImplemented))


def clone_by_value(v, memo=None):
    """Deep copy of an implementation object by value: containers and objects with a __dict__ are copied
    recursively (shared references / cycles preserved through `memo`), locks are replaced by fresh ones of the same
    kind, bound methods are re-bound to the copy of their owner, every other callable (tool bodies, functions,
    classes) is code, not state, and is shared."""
    memo = {} if memo is None else memo
    if isinstance(v, _ATOM_TYPES) or isinstance(v, (enum.Enum, type)):
        return v
    i = id(v)
    if i in memo:
        return memo[i][0]

    def keep(new):
        memo[i] = (new, v)  # holds v: its id stays unique for the duration of the copy
        return new

    if isinstance(v, _LOCK_TYPES):
        return keep(threading.Lock() if isinstance(v, _LOCK_TYPES[0]) else threading.RLock())
    if isinstance(v, types.MethodType):
        return keep(types.MethodType(v.__func__, clone_by_value(v.__self__, memo)))
    if isinstance(v, (tuple, frozenset)):
        items = [clone_by_value(x, memo) for x in v]
        try:
            return keep(type(v)(items) if type(v) in (tuple, frozenset) else type(v)(*items))
        except Exception:  # noqa: BLE001
            return keep(tuple(items) if isinstance(v, tuple) else frozenset(items))
    if isinstance(v, (list, set, collections.deque, dict)):
        new = keep(copy.copy(v))  # keeps the concrete type (deque maxlen, defaultdict factory, ...)
        new.clear()
        if isinstance(v, dict):
            for k, x in list(v.items()):
                new[clone_by_value(k, memo)] = clone_by_value(x, memo)
        elif isinstance(v, set):
            new.update(clone_by_value(x, memo) for x in list(v))
        else:
            new.extend(clone_by_value(x, memo) for x in list(v))
        return new
    if callable(v):
        return keep(v)
    d = getattr(v, "__dict__", None)
    if isinstance(d, dict):
        try:
            new = copy.copy(v)  # same class, shallow state (slots included)
            if new is v:
                return keep(v)
        except Exception:  # noqa: BLE001
            new = object.__new__(type(v))
        keep(new)
        for k, x in list(d.items()):
            new.__dict__[k] = clone_by_value(x, memo)
        return new
    try:
        return keep(copy.deepcopy(v))
    except Exception:  # noqa: BLE001
        return keep(v)


def state_leaves(v, path=(), out=None, onpath=()):
    """Flatten an implementation object into {path: printable leaf}: objects with a __dict__ by attribute,
    dicts by key, sequences by index, sets as one sorted leaf; locks / callables by kind, never by address.
    A path is a tuple of steps discovered by walking, so nothing here names a field of the library."""
    out = {} if out is None else out
    if isinstance(v, enum.Enum):
        out[path] = f"{type(v).__name__}.{v.name}"
    elif isinstance(v, _ATOM_TYPES):
        out[path] = short(v, 400)
    elif id(v) in onpath or len(path) > 12:
        out[path] = "<cycle>" if id(v) in onpath else "<deep " + type(v).__name__ + ">"
    elif isinstance(v, _LOCK_TYPES):
        out[path] = "<lock>"
    elif isinstance(v, (set, frozenset)):
        out[path] = "{" + ", ".join(sorted(repr(sorted(state_leaves(x, (), None, onpath + (id(v),)).items())) for x in v)) + "}"
    elif isinstance(v, dict):
        out[path + ("#",)] = f"{type(v).__name__}[{len(v)}]"
        for k in sorted(v, key=lambda k: short(k, 200)):
            state_leaves(v[k], path + ("k:" + short(k, 200),), out, onpath + (id(v),))
    elif isinstance(v, (list, tuple, collections.deque)):
        out[path + ("#",)] = f"{type(v).__name__}[{len(v)}]"
        for n, x in enumerate(v):
            state_leaves(x, path + (n,), out, onpath + (id(v),))
    elif isinstance(v, types.MethodType):
        out[path] = "<method " + getattr(v.__func__, "__qualname__", "?") + ">"
    elif isinstance(getattr(v, "__dict__", None), dict) and not isinstance(v, (type, types.FunctionType, types.ModuleType)):
        out[path + ("#",)] = "<" + type(v).__name__ + ">"
        for k in sorted(vars(v), key=str):
            state_leaves(vars(v)[k], path + ("a:" + str(k),), out, onpath + (id(v),))
    elif callable(v):
        out[path] = "<callable " + str(getattr(v, "__qualname__", type(v).__name__)) + ">"
    else:
        out[path] = short(v, 400)
    return out


class RosModel:
    """Engine A over the ROS latch: histories of failing / succeeding / hostile calls and repair()."""
    EXPRS = ["1+1", "1/0", "(1).real", f"'{SUR}'", "x" * 10001, "", "rec(1)", "[1, 2]", "[1,2][0]", "getattr(1, 'real')"]
    FORBIDDEN = {2: "Attribute", 8: "Subscript", 9: "Name-outside"}  # must fail at every ROS level / after any history

    def roots(self):
        return [[mr, s] for mr in (0.3, 1.0) for s in (True, False)]

    def build(self, root):
        return mk_engine("rec", silent=bool(root[1]), max_ros=root[0])

    def ops(self, st):
        o = [["m", i, pw] for i in range(len(self.EXPRS)) for pw in ("auto", "logic")]
        return o + [["repair", 0.5], ["repair", 0.25], ["repair", 10.0]]

    def clone(self, st):
        return clone_by_value(st)  # every field of the instance, whatever it is called and however deeply it nests

    # public statistics that are monotone bookkeeping (a call counter and a sum of measured wall-time efficiencies):
    # named by their PUBLIC get_statistics() keys; where the instance stores them is found out by behaviour below.
    MONOTONE_STATS = ("operations_count", "total_atp_produced")

    @classmethod
    def _stable_stats(cls, e):
        try:
            d = dict(e.get_statistics())
        except Exception as ex:  # noqa: BLE001
            return ("<statistics not readable>", type(ex).__name__)
        d.pop("total_atp_produced", None)  # depends on measured wall time
        return d

    @staticmethod
    def _ros_txt(st):
        """ROS level for messages, through the public getter"""
        try:
            return f"{st.get_ros_level():.2f}"
        except Exception:  # noqa: BLE001
            return "<unreadable>"

    def selfcheck_clone(self):
        """A snapshot must be indistinguishable from a replay of the same public history on fresh objects, and
        stepping it must leave its source untouched (a field added later, or state moved into a nested object, must
        not escape or be shared).  -> None when faithful, else a description of the first divergence."""
        from mc import explore
        hist = [["m", 1, "auto"]] * 3 + [["repair", 0.25], ["m", 0, "auto"], ["m", 2, "logic"], ["m", 6, "auto"]]
        try:
            for root in self.roots():
                for op in self.ops(None):
                    ref = explore.rebuild(self, root, hist)
                    src = explore.rebuild(self, root, hist)
                    before = (self.canon(src), self._stable_stats(src))
                    x = self.clone(src)
                    y = self.clone(x)
                    seen = [(self.step(e, op), self.canon(e), self._stable_stats(e)) for e in (ref, x, y)]
                    if seen[1] != seen[0] or seen[2] != seen[0]:
                        return f"snapshot diverges from replay at {root} {op}"
                    if (self.canon(src), self._stable_stats(src)) != before:
                        return f"stepping a snapshot changed its source at {root} {op}"
        except Exception as e:  # noqa: BLE001 - a crash of the snapshot machinery is a reason to go without it
            return f"snapshot machinery raised {type(e).__name__}: {short(e, 120)}"
        return None

    # Instance state that cannot carry behaviour: the storage of the two monotone public statistics (read only by
    # the statistics getters).  Located BY BEHAVIOUR, not by name: drive a fresh engine through a fixed sequence of
    # public calls and keep the paths (see state_leaves) whose leaf equals the reported statistic at every point of
    # the sequence, for a statistic that never decreased and did increase.  EVERY other leaf of the instance (also
    # one a later change adds: a cache, a log, a nested ledger) is part of the canonical state, so that two histories
    # are merged only if the whole instance agrees.
    PROBE_OPS = (["m", 0, "auto"], ["m", 1, "auto"], ["m", 4, "auto"], ["m", 0, "logic"], ["repair", 0.25],
                 ["m", 7, "auto"], ["m", 1, "logic"], ["m", 6, "auto"], ["m", 5, "auto"], ["repair", 10.0], ["m", 0, "auto"])

    def volatile_paths(self):
        if getattr(self, "_volatile", None) is None:
            per_root = []
            for root in self.roots():
                try:
                    st = self.build(root)
                    points = []
                    for op in (None,) + tuple(self.PROBE_OPS):
                        if op is not None:
                            self.step(st, op)
                        points.append((state_leaves(st), dict(st.get_statistics())))
                    vol = set()
                    for name in self.MONOTONE_STATS:
                        vals = [stats.get(name) for _, stats in points]
                        if not all(isinstance(x, (int, float)) and not isinstance(x, bool) for x in vals):
                            continue
                        if any(b < a for a, b in zip(vals, vals[1:])) or vals[-1] <= vals[0]:
                            continue  # not a monotone counter on this tree: its storage stays in the key
                        mirror = [short(x, 400) for x in vals]
                        vol |= {path for path in points[0][0]
                                if all(lv.get(path) == m for (lv, _), m in zip(points, mirror))}
                    per_root.append(vol)
                except Exception:  # noqa: BLE001 - nothing is excluded on a tree where the probe cannot run
                    per_root.append(set())
            self._volatile = frozenset(set.intersection(*per_root)) if per_root else frozenset()
        return self._volatile

    def canon(self, st):
        # exact float: rounding would make "latched" depend on which history reached the state first.  Read through
        # the public observers (what a caller can see), plus a fingerprint of the remaining instance state.
        try:
            vol = self.volatile_paths()
            rest = tuple(sorted((repr(path), leaf) for path, leaf in state_leaves(st).items() if path not in vol))
        except Exception:  # noqa: BLE001
            rest = ("<instance state not readable>",)
        try:
            return (repr(st.get_ros_level()), st.get_statistics()["health"] != "healthy", rest)
        except Exception:  # noqa: BLE001
            return ("<public observers not readable>", None, rest)

    def observe(self, st):
        return repr(self.canon(st))

    def step(self, st, op):
        with _StrictUtf8Stdout():
            if op[0] == "repair":
                try:
                    st.repair(op[1])
                except BaseException as e:  # noqa: BLE001
                    return [(f"raises:{type(e).__name__}:repair", f"repair({op[1]}) raised {type(e).__name__}: {e}")]
                return []
            res, detail, value = call(st, self.EXPRS[op[1]], op[2])
            ran = bool(TOOL_CALLS)
        expr = self.EXPRS[op[1]]
        if res in ("raise", "badtype"):
            return [(f"raises:{detail}:{'silent' if st.silent else 'nonsilent'}",
                     f"Mitochondria(silent={st.silent}).metabolize({short(expr, 40)}) raised {detail} "
                     f"at ROS level {self._ros_txt(st)}; expected a MetabolicResult")]
        out = []
        if ran and not (op[2] in ("auto", "tool") and root_call_name(expr) == "rec"):
            out.append((f"tool-ran-unaddressed:{op[2]}", f"tool body ran for {expr!r} on pathway {op[2]} at ROS level "
                                                         f"{self._ros_txt(st)}"))
        if op[1] in self.FORBIDDEN:
            j = judge_conf(self.FORBIDDEN[op[1]], "strict", None, expr, op[2], "rec", res, detail, value, ran)
            if isinstance(j, tuple):
                out.append((j[0], j[1] + f" [at ROS level {self._ros_txt(st)} of max_ros={st.max_ros}]"))
        return out


# --------------------------------------------------------------------------------------------
# 2b. configuration space: constructor parameters x registration route x callback answers x history
# --------------------------------------------------------------------------------------------
# Every public constructor parameter of the engine (timeout_seconds, max_ros, tools, allowed_capabilities, silent)
# is a dimension of "the safe computation engine" the statement quantifies over.  Values are addressed by LABEL so
# that a recorded case survives the JSON round trip (inf / nan / 10**400 do not).
NAN = float("nan")
ALLCAPS = sorted(Capability, key=lambda c: c.name)
CFG_TIMEOUT = {
    "0": 0, "0.0": 0.0, "-0.0": -0.0, "denormal": 5e-324, "tiny": 1e-9, "0.5": 0.5, "default": 5.0, "int": 5,
    "huge": 1e9, "float-max": sys.float_info.max, "huge-int": 10 ** 400, "inf": INF, "nan": NAN,
}
CFG_MAXROS = {"0": 0, "0.1": 0.1, "0.3": 0.3, "default": 1.0, "huge": 1e308, "inf": INF, "nan": NAN}
CFG_CAPS = {"none": None, "empty": (), "one": tuple(ALLCAPS[:1]), "all": tuple(ALLCAPS)}
CFG_REG = ("engulf", "ctor", "register_function")  # the three public ways a tool gets registered
# capabilities the configuration-family tools declare: rec none, net exactly the "one" capability, fs two others
TOOL_CAPS = {"net": tuple(ALLCAPS[:1]), "fs": tuple(ALLCAPS[1:3])}
LIB_DEFAULT = {"t": "default", "r": "default"}  # labels of the library's own defaults (for messages only)

_TOOL_CACHE: dict = {}


def _cached_tool(name):
    if name not in _TOOL_CACHE:
        _TOOL_CACHE[name] = _mk_tool(name, TOOL_CAPS.get(name, ()))
    return _TOOL_CACHE[name]


def mk_cfg_engine(cfg, toolset="cfg", tools=None):
    """cfg = (timeout label, max_ros label, silent, capability label, registration route)."""
    t, r, silent, caps, reg = cfg
    allowed = None if CFG_CAPS[caps] is None else set(CFG_CAPS[caps])
    kw = dict(timeout_seconds=CFG_TIMEOUT[t], max_ros=CFG_MAXROS[r], allowed_capabilities=allowed, silent=bool(silent))
    tools = [_cached_tool(n) for n in TOOLSETS[toolset]] if tools is None else tools
    if reg == "ctor":
        return Mitochondria(tools=list(tools), **kw)
    m = Mitochondria(**kw)
    for tl in tools:
        if reg == "engulf":
            m.engulf_tool(tl)
        else:
            m.register_function(tl.name, tl.func, tl.description, required_capabilities=set(tl.required_capabilities))
    return m


def cfg_desc(cfg):
    t, r, silent, caps, reg = cfg
    parts = []
    if t != LIB_DEFAULT["t"]:
        parts.append(f"timeout_seconds={short(CFG_TIMEOUT[t], 12)}")
    if r != LIB_DEFAULT["r"]:
        parts.append(f"max_ros={short(CFG_MAXROS[r], 12)}")
    if caps != "none":
        parts.append(f"allowed_capabilities=<{caps}>")
    parts.append(f"silent={bool(silent)}")
    return f"Mitochondria({', '.join(parts)}; tools registered via {reg})"


def cfg_distance(cfg):
    """number of dimensions away from the plain configuration; recorded first in a case so that the reported
    example of a violation key is one with as few unusual settings as possible (cases are compared by repr)"""
    return sum(1 for a, b in zip(cfg, ("default", "default", True, "none", "engulf")) if a != b)


def full_configs():
    """Full product of the four value dimensions on the plain registration route, plus the other two routes
    crossed with silent x capabilities x {default, zero} timeout."""
    out = [(t, r, s, c, "engulf") for t in CFG_TIMEOUT for r in CFG_MAXROS for s in (True, False) for c in CFG_CAPS]
    out += [(t, "default", s, c, reg) for reg in CFG_REG[1:] for t in ("default", "0") for s in (True, False)
            for c in CFG_CAPS]
    return out


def star_configs():
    """One dimension away from the harness baseline (timeout 5.0, never-latching max_ros, silent, unrestricted,
    engulf_tool) in every direction: used where the full product is too large (confinement contexts)."""
    base = ("default", "inf", True, "none", "engulf")
    out = [base]
    out += [(t,) + base[1:] for t in CFG_TIMEOUT if t != base[0]]
    out += [(base[0], r) + base[2:] for r in ("default", "huge", "nan")]  # finite ones: repair() before each call
    out += [base[:2] + (False,) + base[3:]]
    out += [base[:3] + (c, base[4]) for c in CFG_CAPS if c != base[3]]
    out += [base[:4] + (reg,) for reg in CFG_REG[1:]]
    return out


_ROOT_CALL: dict = {}


def root_call_name(expr):
    """Harness-side: the Name the whole string calls (what a tool invocation addresses), else None."""
    if expr not in _ROOT_CALL:
        try:
            b = ast.parse(expr.strip(), mode="eval").body
            _ROOT_CALL[expr] = b.func.id if isinstance(b, ast.Call) and isinstance(b.func, ast.Name) else None
        except Exception:  # noqa: BLE001
            _ROOT_CALL[expr] = None
    return _ROOT_CALL[expr]


def core_expressions():
    """(kind, class, expr): the core scenarios every configuration is crossed with.  'ok' succeed on at least one
    pathway with each value type the engine can produce, 'fail' fail for each reason the engine documents (syntax,
    unknown name / tool, error inside an allow-listed operation or a tool argument, length guard), 'forbidden'
    = first probe of every forbidden class at the root and as a tool argument.  Only 'forbidden' carries an
    expectation beyond totality."""
    L = mito_mod.MAX_EXPRESSION_LENGTH if isinstance(getattr(mito_mod, "MAX_EXPRESSION_LENGTH", None), int) else 10000
    out = [("ok", None, e) for e in (
        "1+1", "2 < 3", "true and false", "[1, 2]", '{"a": 1}', "rec(1, k=2)", "net(1)", "fs()", "sqrt(16) + pi",
        "'a' * 3", "max([1, 2, 3])", "not 0", "1 if 2 else 3", "-5", "(1, 'a')", "None", "0", "''", "10**5000",
        "inf - inf", f"'{SUR}'", "'\U0001f600' * 20")]
    out += [("fail", None, e) for e in (
        "1/0", "", "1 +", "undefined_name", "abs('a')", "x" * (L + 1), "nosuch(1)", "rec(", "rec(1/0)", "int('x')",
        "\x00", "max()")]
    seen = set()
    for cls, probe in PROBES:
        if cls not in seen:
            seen.add(cls)
            out += [("forbidden", cls, probe), ("forbidden", cls, "rec((" + probe + "))")]
    return out


def judge_entry(kind, cls, expr, entry, res, detail, value, ran, registered, silent, desc):
    """Oracle shared by the configuration / callback / history families: one call of one public entry point
    ('auto'|'math'|'logic'|'tool'|'transform' = metabolize on that pathway, 'legacy' = digest_glucose) on an engine
    described by `desc` whose registered tool names (tracked by the harness from its own public calls) are
    `registered`.  -> [(key, what)]"""
    if res == "raise" and detail == "_CpuWatchdog":
        return [(f"no-return:{'digest_glucose' if entry == 'legacy' else 'metabolize'}",
                 f"{desc} {entry}({short(expr, 60)}) was still running after {CALL_CPU_BUDGET:.0f} s of CPU time and was "
                 f"interrupted by the harness; expected a result (the expression needs microseconds)")]
    if res in ("raise", "badtype"):
        if entry == "legacy":
            return [(f"raises:digest_glucose:{detail}",
                     f"{desc}.digest_glucose({short(expr, 60)}) "
                     f"{'raised ' + detail + ' to the caller' if res == 'raise' else 'returned a ' + detail}; expected a "
                     f"str (the rendered value or its 'Metabolic Failure: ...' text)")]
        return [(f"raises:{detail}:{'silent' if silent else 'nonsilent'}",
                 f"{desc}.metabolize({short(expr, 60)}, pathway={entry}) "
                 f"{'raised ' + detail + ' to the caller' if res == 'raise' else 'returned a ' + detail}; expected a "
                 f"MetabolicResult")]
    out = []
    if ran and not (entry in ("auto", "tool") and root_call_name(expr) in registered):
        out.append((f"tool-ran-unaddressed:{entry}",
                    f"a tool body ran for {desc} {entry}({short(expr, 60)}) although the string does not address a tool "
                    f"registered on that engine ({sorted(registered)}) on a tool-executing pathway"))
    if kind == "forbidden":
        if entry == "legacy":
            if detail == "rendered" and cls not in LITERAL_ONLY_NODES:
                out.append((f"forbidden-evaluated:{cls}:math",
                            f"{desc}.digest_glucose({short(expr, 60)}) rendered {short(value)}: the {cls} construct was "
                            f"evaluated (expected the 'Metabolic Failure' text)"))
        else:
            j = judge_conf(cls, "strict", None, expr, entry, "cfg", res, detail, value, ran and not out)
            if isinstance(j, tuple):
                out.append((j[0], j[1] + f" [engine: {desc}]"))
    return out


class _CpuWatchdog(BaseException):
    """raised by the SIGPROF handler inside a call that burned CALL_CPU_BUDGET seconds of CPU"""


CALL_CPU_BUDGET = 20.0  # CPU seconds (process time, so machine load cannot trigger it); every call of the in-process
#                         families needs microseconds to milliseconds


class _Abandon(Exception):
    """a worker gives up its remaining enumeration after WATCHDOG_MAX_HITS interrupted calls (each costs the
    full budget; the run is failing already and the recorded violations name the mechanism)"""


WATCHDOG_MAX_HITS = 5
_WD_HITS = [0]


def _on_sigprof(signum, frame):
    _WD_HITS[0] += 1
    raise _CpuWatchdog()


def abandonable(worker):
    """decorator for the in-process family workers: -> their result dict, or the partial one on _Abandon"""
    def wrapped(job):
        part = {"evals": 0, "outcomes": set(), "viol": {}, "rejected": 0, "abandoned": 0}
        try:
            return worker(job, part)
        except _Abandon:
            part["abandoned"] = 1
            part["outcomes"].add(("worker-abandoned-after-interrupted-calls",))
            return part
    wrapped.__name__ = worker.__name__
    wrapped.__doc__ = worker.__doc__
    return wrapped


def call_entry(eng, expr, entry):
    """One call of a public entry point under a CPU-time watchdog: a call that spins (a retry / polling loop that
    a zero, inf or nan budget never ends) comes back as ('raise', '_CpuWatchdog') instead of hanging the harness.
    (A call that sleeps forever burns no CPU and is not caught here.)"""
    if _WD_HITS[0] >= WATCHDOG_MAX_HITS:
        raise _Abandon()
    if signal.getsignal(signal.SIGPROF) is not _on_sigprof:
        signal.signal(signal.SIGPROF, _on_sigprof)
    signal.setitimer(signal.ITIMER_PROF, CALL_CPU_BUDGET)
    try:
        if entry == "legacy":
            return call_legacy(eng, expr)
        return call(eng, expr, entry)
    finally:
        signal.setitimer(signal.ITIMER_PROF, 0)


ENTRIES = PW_ORDER + ("legacy",)


def _add(viol, key, what, case):
    v = viol.setdefault(key, {"what": what, "n": 0, "case": case})
    v["n"] += 1
    if repr(common.jsonable(case)) < repr(common.jsonable(v["case"])):
        v["what"], v["case"] = what, case


@abandonable
def config_worker(cfgs, part):
    """Every configuration x core expression x entry point on a FRESH engine (so that a small max_ros cannot make
    later cases vacuous), the same call twice (the answer repeated; second call sees the first one's bookkeeping)."""
    core = core_expressions()
    registered = set(TOOLSETS["cfg"])
    outcomes, viol = part["outcomes"], part["viol"]
    with _StrictUtf8Stdout():
        for cfg in cfgs:
            desc = cfg_desc(cfg)
            for kind, cls, expr in core:
                for entry in ENTRIES:
                    try:
                        eng = mk_cfg_engine(cfg)
                    except Exception as e:  # noqa: BLE001 - a constructor that refuses a configuration is not the evaluator
                        part["rejected"] += 1
                        outcomes.add(("config-rejected", cfg[0], cfg[1], type(e).__name__))
                        continue
                    for rep in (0, 1):
                        res, detail, value = call_entry(eng, expr, entry)
                        part["evals"] += 1
                        outcomes.add((kind, entry == "legacy", res, detail if res != "ok" or entry == "legacy"
                                      else type(value).__name__, cfg[0], rep))
                        for key, what in judge_entry(kind, cls, expr, entry, res, detail, value, bool(TOOL_CALLS),
                                                     registered, cfg[2], desc):
                            _add(viol, key, what, {"sub": "config", "nd": cfg_distance(cfg), "cfg": list(cfg), "expr": expr,
                                                   "kind": kind, "cls": cls, "entry": entry, "rep": rep})
    return part


def replay_config(case):
    cfg = tuple(case["cfg"])
    out = []
    with _StrictUtf8Stdout():
        eng = mk_cfg_engine(cfg)
        for rep in range(case["rep"] + 1):
            res, detail, value = call_entry(eng, case["expr"], case["entry"])
            if rep == case["rep"]:
                out = judge_entry(case["kind"], case["cls"], case["expr"], case["entry"], res, detail, value,
                                  bool(TOOL_CALLS), set(TOOLSETS["cfg"]), cfg[2], cfg_desc(cfg))
    return out


@abandonable
def hostile_config_worker(job, part):
    """The hand-written hostile strings and the awkward-to-render successes under every timeout x silent setting
    (two unusual things at once), all entry points; engines never latch and are reused."""
    items, cfgs = job
    outcomes, viol = part["outcomes"], part["viol"]
    with _StrictUtf8Stdout():
        engines = [(cfg, mk_cfg_engine(cfg, "rec")) for cfg in cfgs]
        for tag, expr in items:
            for cfg, eng in engines:
                for entry in ENTRIES:
                    res, detail, value = call_entry(eng, expr, entry)
                    part["evals"] += 1
                    outcomes.add((entry == "legacy", res, detail if res != "ok" or entry == "legacy"
                                  else type(value).__name__, cfg[0], cfg[2]))
                    for key, what in judge_entry("any", None, expr, entry, res, detail, value, bool(TOOL_CALLS),
                                                 {"rec"}, cfg[2], cfg_desc(cfg)):
                        _add(viol, key, what, {"sub": "hostile-config", "nd": cfg_distance(cfg), "cfg": list(cfg), "expr": expr,
                                               "tag": tag})
    return part


# ---- confinement under every configuration one step away from the baseline ------------------
@abandonable
def conf_cfg_worker(job, part):
    """job = (depth, [probe indices], cfgs): forbidden probe x context x pathway x configuration."""
    depth, idxs, cfgs = job
    ctxs = contexts(depth)
    outcomes, viol = part["outcomes"], part["viol"]
    with _StrictUtf8Stdout():
        engines = [(cfg, mk_cfg_engine(cfg), CFG_MAXROS[cfg[1]] < 1e300) for cfg in cfgs]
        for pi in idxs:
            cls, probe = PROBES[pi]
            for t, kind, acc in ctxs:
                expr = fill(t, probe)
                for cfg, eng, finite in engines:
                    for pw in PW_ORDER:
                        if finite:
                            eng.repair(1e9)  # public call: keeps a finite max_ros from latching the engine shut
                        res, detail, value = call_entry(eng, expr, pw)
                        ran = bool(TOOL_CALLS)
                        part["evals"] += 1
                        key = judge_conf(cls, kind, acc, expr, pw, "cfg", res, detail, value, ran)
                        if res == "raise" and detail == "_CpuWatchdog":
                            key = judge_entry("any", None, expr, pw, res, detail, value, ran, (), cfg[2], cfg_desc(cfg))[0]
                        if isinstance(key, str):
                            outcomes.add((key, cls))
                            key = None
                        outcomes.add((res, detail if res != "ok" else type(value).__name__, kind, ran, cfg[0] if res == "ok" else ""))
                        if key:
                            _add(viol, key[0], key[1] + f" [engine: {cfg_desc(cfg)}]",
                                 {"sub": "conf-config", "nd": cfg_distance(cfg), "expr": expr, "pw": pw, "cfg": list(cfg),
                                  "cls": cls, "kind": kind, "accept": acc})
    return part


def replay_conf_config(case):
    cfg = tuple(case["cfg"])
    with _StrictUtf8Stdout():
        eng = mk_cfg_engine(cfg)
        res, detail, value = call(eng, case["expr"], case["pw"])
    j = judge_conf(case["cls"], case["kind"], tuple(case.get("accept") or ()), case["expr"], case["pw"], "cfg", res,
                   detail, value, bool(TOOL_CALLS))
    return [j] if isinstance(j, tuple) else []


# ---- callback answers: what a registered tool returns / raises ---------------------------------
class _Plain:
    """an odd-but-legal tool result: no special methods at all"""


_EXC_ARGS = {
    "UnicodeEncodeError": ("utf-8", SUR, 0, 1, "surrogates not allowed"),
    "UnicodeDecodeError": ("utf-8", b"\xff", 0, 1, "invalid start byte"),
    "UnicodeTranslateError": (SUR, 0, 1, "unmappable"),
    "ExceptionGroup": ("", [ValueError()]),
}
_EXC_MESSAGES = [("empty-str", ("",)), ("surrogate", (SUR,)), ("long", ("x" * 20000,)), ("braces", ("{0} %s {",)),
                 ("nonstr", (None,)), ("two-args", (1, 2))]


def tool_answers():
    """name -> ('ret', value) | ('exc', class, args) | ('assert',).  Exception classes are discovered from the
    running interpreter: every builtin Exception subclass (BaseException-only classes such as KeyboardInterrupt
    are a tool's way of stopping the process, not judged), constructed without a message; a few with odd messages."""
    out = {}
    rets = [None, 0, False, "", [], {}, (), 0.0, NAN, -0.0, 10 ** 5000, SUR, "\x00", b"", _Plain(), _Plain, len,
            NotImplemented, Ellipsis, MetabolicResult(success=False, error="x"), ValueError("returned, not raised"),
            [[[]]] * 3, "x" * 100000]
    for i, v in enumerate(rets):
        out[f"ret{i:02d}"] = ("ret", v)
    skipped = []
    for name in sorted(vars(builtins)):
        c = vars(builtins)[name]
        if not (isinstance(c, type) and issubclass(c, Exception)) or c.__name__ != name:
            continue
        args = _EXC_ARGS.get(name, ())
        try:
            c(*args)
        except Exception:  # noqa: BLE001
            skipped.append(name)
            continue
        out[f"exc_{name}"] = ("exc", c, args)
    for cname in ("ValueError", "KeyError", "AssertionError", "StopIteration", "OSError"):
        for tag, args in _EXC_MESSAGES:
            out[f"exc_{cname}_{tag.replace('-', '_')}"] = ("exc", getattr(builtins, cname), args)
    out["exc_bare_assert"] = ("assert",)
    return out, skipped


def _answer_tool(name, spec):
    def body(*a, **k):
        TOOL_CALLS.append((name, len(a), tuple(sorted(k))))
        if spec[0] == "ret":
            return spec[1]
        if spec[0] == "assert":
            assert not name  # noqa: S101 - a failing bare assert is one of the answers
        raise spec[1](*spec[2])

    return SimpleTool(name=name, description="answering tool", func=body)


ANSWER_SHAPES = ("()", "(1, k=2)")


@abandonable
def answers_worker(job, part):
    """job = ([tool names], cfgs).  Each answering tool x call shape x entry point x configuration, twice."""
    names, cfgs = job
    table, _ = tool_answers()
    tools = [_answer_tool(nm, table[nm]) for nm in sorted(table)] + [_cached_tool("rec")]
    registered = set(table) | {"rec"}
    outcomes, viol = part["outcomes"], part["viol"]
    with _StrictUtf8Stdout():
        engines = [(cfg, mk_cfg_engine(cfg, tools=tools)) for cfg in cfgs]
        for nm in names:
            for shape in ANSWER_SHAPES:
                expr = nm + shape
                for cfg, eng in engines:
                    for entry in ENTRIES:
                        for rep in (0, 1):
                            res, detail, value = call_entry(eng, expr, entry)
                            part["evals"] += 1
                            outcomes.add((table[nm][0], entry, res, detail if res != "ok" or entry == "legacy"
                                          else type(value).__name__, bool(TOOL_CALLS)))
                            for key, what in judge_entry("any", None, expr, entry, res, detail, value, bool(TOOL_CALLS),
                                                         registered, cfg[2], cfg_desc(cfg)):
                                what += (f" [tool {nm!r} " + ("returns " + short(table[nm][1], 40) if table[nm][0] == "ret"
                                                              else "raises " + (table[nm][1].__name__ + short(table[nm][2], 30)
                                                                                if table[nm][0] == "exc" else "a bare assert"))
                                         + "]")
                                _add(viol, key, what, {"sub": "answers", "nd": cfg_distance(cfg), "cfg": list(cfg), "tool": nm,
                                                       "shape": shape,
                                                       "entry": entry, "rep": rep})
    return part


def replay_answers(case):
    r = answers_worker(([case["tool"]], [tuple(case["cfg"])]))
    return [(k, v["what"]) for k, v in r["viol"].items()]


# ---- history / mutation after construction -----------------------------------------------------
# Prefix operations: public calls only, on the judged engine E (tools: rec), on ANOTHER engine O of the same process
# (tools: rec, extra) and re-registrations / attribute settings between construction and the judged call.
def history_ops():
    L = mito_mod.MAX_EXPRESSION_LENGTH if isinstance(getattr(mito_mod, "MAX_EXPRESSION_LENGTH", None), int) else 10000
    ops = [("m", e, pw) for e, pw in (
        ("1+1", "auto"), ("1+1", "math"), ("rec(1)", "auto"), ("rec(7, k=8)", "tool"), ("1/0", "auto"), ("(1).real", "auto"),
        ("[1, 2]", "auto"), ("true and false", "logic"), ("{1: [2]}", "transform"), ("x" * (L + 1), "auto"),
        ("undefined_name", "math"), ("extra(1)", "auto"))]
    ops += [("legacy", "6*7"), ("legacy", "10**5000"), ("legacy", "(1).real")]
    ops += [("repair", 0.5), ("observe",), ("exec_tool", "rec"), ("exec_tool", "nosuch")]
    ops += [("other", e, pw) for e, pw in (("extra(1)", "auto"), ("extra(1)", "tool"), ("rec(1)", "tool"), ("1+1", "math"),
                                          ("(1).real", "math"), ("[1, 2]", "transform"))]
    ops += [("engulf", "rec"), ("engulf", "late"), ("register_function", "late"), ("engulf", "abs"), ("pop", "rec"),
            ("set", "timeout", "0"), ("set", "timeout", "nan"), ("set", "silent"), ("set", "max_ros", "nan")]
    return ops


HISTORY_CASES = [  # (kind, class, expr)
    ("ok", None, "1+1"), ("ok", None, "2 < 3"), ("ok", None, "[1, 2]"), ("ok", None, "rec(1)"), ("ok", None, "abs(-1)"),
    ("fail", None, "1/0"), ("fail", None, "undefined_name"), ("fail", None, ""),
    ("unregistered", None, "extra(1)"), ("unregistered", None, "late(1)"), ("unregistered", None, "nosuch()"),
    ("forbidden", "Attribute", "(1).real"), ("forbidden", "Subscript", "[1,2][0]"),
    ("forbidden", "Name-outside", "getattr(1, 'real')"), ("forbidden", "Attribute", "rec((1).real)"),
    ("forbidden", "Lambda", "(lambda: 1)()"),
]


def _hist_apply(E, O, op, registered):
    """One prefix operation through public API only; `registered` (harness-side, derived from the calls made) is
    updated.  Exceptions of calls that are not the judged one are not judged here (every judged family covers
    the expression entry points; the others are not the evaluator)."""
    try:
        if op[0] == "m":
            call_entry(E, op[1], op[2])
        elif op[0] == "legacy":
            call_entry(E, op[1], "legacy")
        elif op[0] == "repair":
            E.repair(op[1])
        elif op[0] == "observe":
            E.get_statistics(), E.list_tools(), E.export_tool_schemas(), E.get_ros_level(), E.get_efficiency()
        elif op[0] == "exec_tool":
            from operon_ai.providers import ToolCall
            E.execute_tool_call(ToolCall(id="c1", name=op[1], arguments={}))
        elif op[0] == "other":
            call_entry(O, op[1], op[2])
        elif op[0] == "engulf":
            E.engulf_tool(_mk_tool(op[1]))
            registered.add(op[1])
        elif op[0] == "register_function":
            tl = _mk_tool(op[1])
            E.register_function(op[1], tl.func, "late")
            registered.add(op[1])
        elif op[0] == "pop":
            E.tools.pop(op[1], None)
            registered.discard(op[1])
        elif op[0] == "set":
            if op[1] == "timeout":
                E.timeout = CFG_TIMEOUT[op[2]]
            elif op[1] == "max_ros":
                E.max_ros = CFG_MAXROS[op[2]]
            else:
                E.silent = not E.silent
    except Exception:  # noqa: BLE001
        return False
    return True


def _hist_engines(silent):
    E = mk_engine("rec", silent=silent, max_ros=1.0)
    O = mk_engine("rec", silent=True, max_ros=1.0)
    O.engulf_tool(_mk_tool("extra"))
    return E, O


def _hist_judge(kind, cls, expr, entry, res, detail, value, ran, registered, silent, desc, fresh):
    out = judge_entry("forbidden" if kind == "forbidden" else "any", cls, expr, entry, res, detail, value, ran,
                      registered, silent, desc)
    if out and out[0][0].startswith("raises:"):
        return out
    accepted = res == "ok" and (entry != "legacy" or detail == "rendered")
    name = root_call_name(expr)
    if accepted and name is not None and name not in registered and name not in DOCUMENTED_PURE:
        out.append((f"unregistered-name-called:{entry}",
                    f"{desc} {entry}({expr!r}) succeeded with {short(value)} although {name!r} is neither an allow-listed "
                    f"function nor a tool registered on that engine ({sorted(registered)}) (expected a failure result)"))
    if accepted and fresh is False and registered == {"rec"} and not out:
        out.append((f"refused-fresh-accepted-after-history:{entry}",
                    f"{desc} {entry}({expr!r}) succeeded with {short(value)}; a fresh engine with the same tools refuses "
                    f"the same string, so the value was not computed from the string with the allow-listed operations "
                    f"alone (expected a failure result)"))
    return out


@abandonable
def history_worker(job, part):
    """job = [prefix] (prefix = tuple of ops).  For every prefix x judged case x entry point x silent: fresh E and O,
    apply the prefix, make the judged call.  The fresh-engine answers are computed first in the same process."""
    prefixes = job
    outcomes, viol = part["outcomes"], part["viol"]
    with _StrictUtf8Stdout():
        fresh = {}
        for silent in (True, False):
            for kind, cls, expr in HISTORY_CASES:
                for entry in ENTRIES:
                    E, O = _hist_engines(silent)
                    res, detail, _ = call_entry(E, expr, entry)
                    fresh[(silent, expr, entry)] = res == "ok" and (entry != "legacy" or detail == "rendered")
        for prefix in prefixes:
            for silent in (True, False):
                for kind, cls, expr in HISTORY_CASES:
                    for entry in ENTRIES:
                        E, O = _hist_engines(silent)
                        registered = {"rec"}
                        applied = tuple(_hist_apply(E, O, op, registered) for op in prefix)
                        res, detail, value = call_entry(E, expr, entry)
                        part["evals"] += 1 + len(prefix)
                        outcomes.add((kind, entry, res, detail if res != "ok" or entry == "legacy" else type(value).__name__,
                                      bool(TOOL_CALLS), all(applied)))
                        desc = (f"after {[short(o, 40) for o in prefix]} on " if prefix else "") + \
                            f"Mitochondria(silent={silent}, tools=['rec'])"
                        for key, what in _hist_judge(kind, cls, expr, entry, res, detail, value, bool(TOOL_CALLS),
                                                     registered, E.silent if isinstance(E.silent, bool) else silent, desc,
                                                     fresh[(silent, expr, entry)]):
                            _add(viol, key, what, {"sub": "history", "np": len(prefix), "prefix": [list(o) for o in prefix],
                                                   "silent": silent,
                                                   "expr": expr, "kind": kind, "cls": cls, "entry": entry})
    return part


def replay_history(case):
    prefix = tuple(tuple(o) for o in case["prefix"])
    r = history_worker([prefix])
    return [(k, v["what"]) for k, v in r["viol"].items()
            if v["case"]["expr"] == case["expr"] and v["case"]["entry"] == case["entry"]] or \
        [(k, v["what"]) for k, v in r["viol"].items()]


# --------------------------------------------------------------------------------------------
# 1d. confinement under history: the same TEXT again, on every ordered pair of entry points
# --------------------------------------------------------------------------------------------
# "For every expression string ... either a failure result or a value computed using only the allow-list": whether a
# string is refused may not depend on what the process evaluated before.  Every confinement text (name-universe probe x
# call shape x placement, forbidden-construct probe x root / depth-1 context, pathway-trick string) is evaluated as the
# two-step sequence  a ; b  for EVERY ordered pair (a, b) of the six entry points (metabolize auto / math / logic /
# tool / transform, digest_glucose; a == b included), with b on the SAME engine and on a SECOND engine of the process.
# Freshness: every task (a, b, same|other, slice) runs in a child forked from the engine-free parent and contains every
# text of its slice once: a on engine A, then IMMEDIATELY (a bounded cache must not have forgotten the text) b on A / B.
# So the first evaluation is the first time the process sees the text ("text-fresh") and the second one has seen it
# exactly once, while both engines carry a long history of other texts.  EVERY evaluation (both steps) is judged by
# the normal confinement oracle of its text family; on top of that the differential clause: a text that entry point b
# refuses when text-fresh must not be accepted after a.  Candidates are confirmed in further children (refusal by a
# brand-new engine in a process new to the text; the isolated two-call sequence on new engines) before they are
# reported, so that a refusal that merely depends on OTHER texts (ROS-like latches) is not blamed on a.
H2_WHERE = ("same", "other")
H2_SLICES = {"quick": 4, "thorough": 12}
H2_NAME_HOLES_QUICK = (H, "[§]", "(1, §)", "bool(§)", "rec(§)")  # the root and the depth-1 placements
H2_DESC = "Mitochondria(silent=True, tools=['rec'])"
_H2: dict = {}  # state inherited by forked children: texts of the tier, engines of the task


def h2_texts(tier):
    """-> [record]; record[0] = family, record[1] = the text (unique).  quick is a subset of thorough.
    ('trick', text, class) | ('probe', text, class, context kind, accept) | ('name', text, name, canon, shape, placement)"""
    out = {}
    for expr, cls in trick_strings():
        out.setdefault(expr, ("trick", expr, cls))
    ctx1 = contexts(1)
    for cls, probe in PROBES:
        for t, kind, acc in ctx1:
            e = fill(t, probe)
            out.setdefault(e, ("probe", e, cls, kind, acc))
    if tier != "quick":  # depth-2 placements for the first probe of every forbidden class
        seen = set()
        ctx2 = contexts(2)
        for cls, probe in PROBES:
            if cls in seen:
                continue
            seen.add(cls)
            for t, kind, acc in ctx2:
                e = fill(t, probe)
                out.setdefault(e, ("probe", e, cls, kind, acc))
    names, fancy = name_universe()
    holes = [t for t, _ in NAME_HOLES if tier != "quick" or t in H2_NAME_HOLES_QUICK]
    for name in names + sorted(fancy):
        canon = fancy.get(name, name)
        for shape in SHAPES:
            probe = name if shape is None else name + _argsrc(shape)
            for template in holes:
                e = place_name(template, probe)
                out.setdefault(e, ("name", e, name, canon, shape, template))
    return list(out.values())


def _h2_lazy_texts(acc):
    return {str(x) for a in acc for x in (a, bool(a))}


def _h2_eval(rec, eng, entry):
    """One evaluation of a history sequence, judged by the normal confinement oracle of the text's family.
    -> (accepted, [(key, what)], outcome).  accepted = the engine did not refuse the text (a success result / a rendered
    value, or a tool body ran)."""
    expr = rec[1]
    legacy = entry == "legacy"
    pw = "math" if legacy else entry  # digest_glucose is documented as the math entry point
    mods = len(sys.modules)
    del _AUDIT_LOG[:]
    _AUDIT_ON[0] = True
    if _WD_HITS[0] >= WATCHDOG_MAX_HITS:
        raise _Abandon()
    signal.setitimer(signal.ITIMER_PROF, CALL_CPU_BUDGET)  # as call_entry (handler installed by _h2_setup)
    try:
        res, detail, value = call_legacy(eng, expr) if legacy else call(eng, expr, entry)
    finally:
        signal.setitimer(signal.ITIMER_PROF, 0)
        _AUDIT_ON[0] = False
    ran = bool(TOOL_CALLS)
    if res in ("raise", "badtype"):
        return False, judge_entry("any", None, expr, entry, res, detail, value, ran, {"rec"}, True, H2_DESC), \
            (rec[0], entry, res, detail, ran)
    ok = detail == "rendered" if legacy else res == "ok"
    via = " [via digest_glucose]" if legacy else ""
    out = []
    if _AUDIT_LOG:
        ev = sorted(set(_AUDIT_LOG))
        out.append((f"audit-event:{ev[0].split('.')[0]}:{rec[3] if rec[0] == 'name' else rec[2]}",
                    f"{entry}({short(expr)}) triggered audit events {ev[:6]}"))
    if len(sys.modules) != mods:
        out.append((f"module-imported:{rec[3] if rec[0] == 'name' else rec[2]}", f"{entry}({short(expr)}) grew sys.modules"))
    if rec[0] == "trick":
        if ok or ran:
            out.append((f"forbidden-evaluated:trick-{rec[2]}:{pw}",
                        f"{H2_DESC} {entry}({short(expr)}) {'succeeded with ' + short(value) if ok else 'ran a tool body'}; "
                        f"the string contains a forbidden construct in a strict position (expected a failure result)"))
    elif rec[0] == "probe":
        _, _, cls, kind, acc = rec
        if legacy and ok and kind in ("lazy", "kwarg") and value in _h2_lazy_texts(acc):
            j = "lazy-skipped"
        else:
            j = judge_conf(cls, kind, acc, expr, pw, "rec", "ok" if ok else "fail", detail, value, ran)
        if isinstance(j, tuple):
            out.append((j[0], j[1] + via))
    else:
        _, _, name, canon, shape, template = rec
        addressed = template.startswith("rec(") or (name == "rec" and shape is not None)
        if ran and not (entry in ("auto", "tool") and addressed):
            out.append((f"tool-ran-unaddressed:{entry}", f"tool body ran for {entry}({expr!r})"))
        if legacy and not template.startswith("rec("):
            hole_ok, hv = ok, NOVAL  # only the rendering is visible
        else:
            hole_ok, hv = hole_value(template, "ok" if ok else "fail", value)
        j = judge_name(name, canon, shape, "ok" if hole_ok else "fail", hv, DOCUMENTED_PURE)
        if j and j[0] != "unvetted":
            out.append((j[0], j[1] + f" inside {expr!r} (entry point {entry}; expected a failure result)"))
    return ok or ran, out, (rec[0], entry, "ok" if ok else "fail", type(value).__name__ if ok else "", ran)


def _h2_setup():
    install_audit()
    dn = os.open(os.devnull, os.O_RDONLY)
    os.dup2(dn, 0)  # a leaked input()/help() must not block on the terminal
    sys.breakpointhook = lambda *a, **k: None
    signal.signal(signal.SIGPROF, _on_sigprof)


def _h2_engine(where):
    """engine A ('same'): tool registered after construction (engulf_tool); the second engine B ('other'): same options,
    tool handed to the constructor.  Never-latching max_ros on both, so acceptance -> refusal cannot come from ROS."""
    if where == "same":
        return mk_engine("rec")
    return Mitochondria(timeout_seconds=5.0, max_ros=INF, silent=True, tools=[_mk_tool("rec")])


def _h2_seqdesc(a, b, where):
    return f"{a} on engine A; then {b} on {'engine A' if where == 'same' else 'a second engine B'}"


def h2_task(task):
    """child of the engine-free parent: task = (a, b, where, slice, number of slices).  For every text of the slice, back to
    back: a on engine A, then b on engine A ('same') / B ('other').  Every text occurs once, so its first evaluation is
    the first time this process sees it.  -> {'n', 'acc1' / 'acc2': local indices accepted at step 1 / 2, 'viol', ...}"""
    a, b, where, s, nslices = task
    recs = _H2["texts"][s::nslices]
    _h2_setup()
    A, B = _h2_engine("same"), _h2_engine("other")
    steps = ((A, a, "acc1", (a,), ""),
             (A if where == "same" else B, b, "acc2", (a, b, where),
              f" [second evaluation of the same text in this process: {_h2_seqdesc(a, b, where)}]"))
    part = {"n": 0, "acc1": [], "acc2": [], "viol": {}, "outcomes": set(), "abandoned": 0}
    try:
        for li, rec in enumerate(recs):
            for eng, entry, slot, seq, suffix in steps:
                accepted, viols, outcome = _h2_eval(rec, eng, entry)
                part["n"] += 1
                part["outcomes"].add(outcome + (len(seq),))
                if accepted:
                    part[slot].append(li)
                for key, what in viols:
                    _add(part["viol"], key, what + suffix, {"sub": "hist2", "expr": rec[1], "seq": seq})
    except _Abandon:
        part["abandoned"] = 1
    return part


def _h2_confirm(arg):
    """child: for each text NEW engines; a == None: the single engine-fresh evaluation of b (on a new engine of the kind
    the sequence's second call used); else the isolated sequence a on A ; b on A / a second engine.
    -> indices (into the argument's list) of the texts that were accepted"""
    a, b, where, recs = arg
    _h2_setup()
    acc = []
    for i, rec in enumerate(recs):
        A, B = _h2_engine("same"), _h2_engine("other")
        if a is not None:
            _h2_eval(rec, A, a)
        if _h2_eval(rec, A if where == "same" else B, b)[0]:
            acc.append(i)
    return acc


def run_hist2(ctx, nproc):
    """-> coverage dict; reports violations.  Must run while the parent process has not evaluated anything."""
    tier = ctx.tier
    texts = h2_texts(tier)
    nslices = H2_SLICES[tier]
    _H2.clear()
    _H2["texts"] = texts
    tasks = [(a, b, w, s, nslices) for a in ENTRIES for b in ENTRIES for w in H2_WHERE for s in range(nslices)]
    order = common.rotate(tasks, ctx.seed)
    res = dict(zip([t[:4] for t in order], run_children(h2_task, order, 0, max(1, nproc))))
    n_eval = 0
    n_proc = len(tasks)
    parts = []
    fresh_all, fresh_any, later = {}, {}, []  # (entry, slice) -> accepted by every / by some text-fresh evaluation
    for a, b, w, s, _ in tasks:
        status, p = res[(a, b, w, s)]
        if status != "done":
            ctx.defer_harness_error(f"history-of-confinement task ({a}; {b} on {w} engine; slice {s}) did not finish: "
                                    f"{status} {short(p, 200)}")
            continue
        acc1 = set(p["acc1"])
        fresh_all[(a, s)] = fresh_all[(a, s)] & acc1 if (a, s) in fresh_all else acc1
        fresh_any[(a, s)] = fresh_any.get((a, s), set()) | acc1
        later.append((a, b, w, s, p["acc2"]))
        p["evals"] = p["n"]
        p["outcomes"] = [tuple(o) for o in p["outcomes"]]
        parts.append(p)
    abandoned = sum(p["abandoned"] for p in parts)
    n_eval += _merge(ctx, "hist2", parts)
    unstable = sum(len(fresh_any[k] - fresh_all[k]) for k in fresh_all)
    # differential clause: refused when text-fresh, accepted as the second evaluation
    cands = [(a, b, w, s, li) for a, b, w, s, acc in later if (b, s) in fresh_all
             for li in sorted(set(acc) - fresh_all[(b, s)])]
    rec_of = lambda s, li: texts[s + li * nslices]  # noqa: E731
    confirmed_fresh_refusal, isolated = {}, {}
    if cands:
        by_b, by_seq = {}, {}
        for a, b, w, s, li in cands:
            by_b.setdefault((b, w), set()).add((s, li))
            by_seq.setdefault((a, b, w), set()).add((s, li))
        jobs = [(None, b, w, sorted(by_b[(b, w)])) for b, w in sorted(by_b)] + \
               [(a, b, w, sorted(by_seq[(a, b, w)])) for a, b, w in sorted(by_seq)]
        args = [(a, b, w, [rec_of(*k) for k in keys]) for a, b, w, keys in jobs]
        for (a, b, w, keys), (status, payload) in zip(jobs, run_children(_h2_confirm, args, 0, max(1, nproc))):
            n_proc += 1
            if status != "done":
                ctx.defer_harness_error(f"history-of-confinement confirmation ({a}, {b}, {w}) did not finish: {status} "
                                        f"{short(payload, 200)}")
                continue
            n_eval += len(keys) * (1 if a is None else 2)
            accd = {keys[i] for i in payload}
            for k in keys:
                if a is None:
                    confirmed_fresh_refusal[(b, w, k)] = k not in accd
                else:
                    isolated[(a, b, w, k)] = k in accd
    groups = {}
    n_legit = 0
    for a, b, w, s, li in cands:
        if not confirmed_fresh_refusal.get((b, w, (s, li))):
            n_legit += 1  # an engine-fresh call accepts the text: the text-fresh refusal came from OTHER texts' history
            continue
        groups.setdefault((a, b, bool(isolated.get((a, b, w, (s, li))))), []).append((w, s, li))
    for (a, b, iso) in sorted(groups):
        g = sorted(groups[(a, b, iso)], key=lambda x: (repr(rec_of(x[1], x[2])[1]), x[0]))
        scope = "process-wide" if any(w == "other" for w, _, _ in g) else "same-instance"
        key = f"refused-fresh-accepted-after-history:{b}:after-{a}:{scope}" if iso else \
            f"refused-fresh-accepted-after-history:{b}:after-{a}-and-other-texts"
        w, s, li = g[0]
        expr = rec_of(s, li)[1]
        what = (f"{H2_DESC}: the text {short(expr)} is refused by {b} when the process has not seen it before (text-fresh, "
                f"and on a brand-new engine), but is ACCEPTED in the sequence {_h2_seqdesc(a, b, w)}"
                f"{'' if iso else ' (only with the history of the other texts of the slice on those engines)'}: "
                f"whether the text is confined depends on what was evaluated before, so the accepted value was not computed "
                f"from the string with the allow-list alone (expected a failure result; {len(g)} such text x engine "
                f"placements for this pair of entry points, e.g. {[short(rec_of(x[1], x[2])[1], 30) for x in g[:4]]})")
        case = {"sub": "hist2-diff", "expr": expr, "a": a, "b": b, "where": w} if iso else \
            {"sub": "hist2-long", "tier": tier, "a": a, "slice": s, "li": li, "b": b, "where": w, "expr": expr}
        for _ in g:
            ctx.report(key, what, case)
    if n_legit:
        ctx.note(f"history of confinement: {n_legit} text-fresh refusals turned into acceptance later although an engine-fresh "
                 f"call accepts the text (acceptance->refusal caused by other texts is not a confinement breach; not judged)")
    ctx.stats["hist2.evaluations"] = n_eval
    ctx.stats["hist2.candidates"] = len(cands)
    return {"texts": len(texts), "entry_points": list(ENTRIES), "ordered_pairs": len(ENTRIES) ** 2,
            "engine_placements_of_second_call": list(H2_WHERE), "sequences": len(texts) * len(ENTRIES) ** 2 * len(H2_WHERE),
            "evaluations": n_eval, "fresh_processes": n_proc, "slices": nslices, "abandoned": abandoned,
            "accepted_text_fresh": sum(len(v) for v in fresh_all.values()), "text_fresh_answers_unstable": unstable,
            "refused_fresh_accepted_later_candidates": len(cands), "candidates_with_engine_fresh_acceptance": n_legit,
            "name_placements": [t for t, _ in NAME_HOLES if tier != "quick" or t in H2_NAME_HOLES_QUICK],
            "probe_context_depth": "1 (root + depth-1)" if tier == "quick" else "1 for every probe, 2 for the first probe per class"}


def replay_hist2(case):
    recs = {r[1]: r for r in h2_texts("thorough")}
    rec = recs.get(case["expr"])
    if rec is None:
        raise common.HarnessError(f"history-of-confinement text not in the alphabet: {case['expr']!r}")
    if case["sub"] == "hist2":  # a normal-oracle violation at some step of a sequence
        seq = tuple(case["seq"])

        def one(_):
            _h2_setup()
            A, B = _h2_engine("same"), _h2_engine("other")
            v = _h2_eval(rec, A, seq[0])[1]
            if len(seq) == 3:
                v = _h2_eval(rec, A if seq[2] == "same" else B, seq[1])[1]
            return [list(x) for x in v]
        (status, payload), = run_children(one, [0], 0, 1)
        if status != "done":
            raise common.HarnessError(f"replay child did not finish: {status} {payload}")
        return [tuple(x) for x in payload]
    a, b, w = case["a"], case["b"], case["where"]
    if case["sub"] == "hist2-diff":
        (s1, p1), (s2, p2) = run_children(_h2_confirm, [(None, b, w, [rec]), (a, b, w, [rec])], 0, 1)
        if s1 != "done" or s2 != "done":
            raise common.HarnessError(f"replay children did not finish: {s1} {s2}")
        if not p1 and p2:
            return [(f"refused-fresh-accepted-after-history:{b}:after-{a}",
                     f"{short(case['expr'])} is refused by {b} on a brand-new engine in a fresh process and accepted in the "
                     f"sequence {_h2_seqdesc(a, b, w)}")]
        return []
    # hist2-long: the engine-fresh refusal, then the whole task of the slice
    nslices = H2_SLICES[case["tier"]]
    _H2.clear()
    _H2["texts"] = h2_texts(case["tier"])
    (s1, p1), (s2, p2) = run_children(lambda j: (_h2_confirm if j[0] is None else h2_task)(j[1]),
                                      [(None, (None, b, w, [rec])), (1, (a, b, w, case["slice"], nslices))], 0, 1)
    if s1 != "done" or s2 != "done":
        raise common.HarnessError(f"replay children did not finish: {s1} {s2}")
    if not p1 and case["li"] in p2["acc2"]:
        return [(f"refused-fresh-accepted-after-history:{b}:after-{a}-and-other-texts",
                 f"{short(case['expr'])} is refused by {b} on a brand-new engine and accepted in the sequence "
                 f"{_h2_seqdesc(a, b, w)} when the engines have the history of the slice's other texts")]
    return []


# --------------------------------------------------------------------------------------------
# --------------------------------------------------------------------------------------------
# 3. resource bound
# --------------------------------------------------------------------------------------------
ENGINE_TIMEOUT = 0.5
DEADLINE_S = 3  # max(3 s, 6 x timeout_seconds) of CPU time, enforced by the kernel (RLIMIT_CPU -> SIGXCPU)
_G = 50000000  # list length of one term of the chained Mult-seq cases (400 MB of pointers, freed per term)


def resource_cases(tier):
    """(class, expr, timeout label), see _resource_base for the expressions.  The base alphabet runs at the 0.5 s
    timeout; the configured timeout is then varied: every quick-tier cheap expression under EVERY timeout value of
    the configuration space (a cheap evaluation must come back whatever the budget is), and unbounded ones under the
    zero / tiny budgets (the bound is 'governed by the timeout': a smaller budget must not make it worse)."""
    base = _resource_base(tier)
    out = [(c, e, "0.5") for c, e in base]
    quick_base = _resource_base("quick")
    out += [(c, e, t) for t in CFG_TIMEOUT if t != "0.5" for c, e in quick_base if c == "cheap"]
    small = ("0", "tiny") if tier == "quick" else ("0", "0.0", "-0.0", "denormal", "tiny")
    heavy = [e for c, e in quick_base if c == "unbounded"]
    heavy = heavy[:1] + heavy[3:4] if tier == "quick" else heavy
    out += [("unbounded", e, t) for t in small for e in heavy]
    if tier != "quick":
        out += [(c, e, t) for t in ("0", "tiny", "inf", "nan") for c, e in base[len(quick_base):] if c == "cheap"]
    return out


def resource_deadline(tlabel):
    """-> (CPU seconds the kernel enforces in the child, judged?).  The statement's bound is 'governed by the
    configured timeout': max(3 s, 6 x timeout) of CPU time.  Where that is not a finite time the harness can wait
    for (huge / inf / nan budgets) the child still runs under the 3 s limit but exceeding it is only noted."""
    t = CFG_TIMEOUT[tlabel]
    try:
        six = 6 * float(t)
    except OverflowError:
        six = INF
    if six != six or six > 30:
        return DEADLINE_S, False
    return max(DEADLINE_S, int(math.ceil(six))), True


def _resource_base(tier):
    """(class, expr).  class 'cheap' = must return; 'unbounded' = needs minutes..years of CPU if evaluated
    (>= 10x the deadline even at the most optimistic throughput), so returning in time means the engine
    refused or interrupted it.  Magnitudes are literals wherever a primitive other than the one under
    test would otherwise appear.  The first 16 form the quick tier."""
    chain_seq = " + ".join([f"sum([1]*{_G})"] * 400)
    chain_str = " + ".join(["len('a'*400000000)"] * 400)
    quick = [
        ("unbounded", "9**9**9"), ("cheap", "2**64"),
        ("unbounded", "10**10**8"), ("cheap", "factorial(20)"),
        ("unbounded", "9**9**9 > 0"), ("cheap", "'a'*100"),
        ("unbounded", "factorial(100000000)"), ("cheap", "'a'*1000000000000"),
        ("unbounded", "factorial(1000000000)"), ("cheap", "int('9'*1000000)"),
        ("unbounded", chain_seq), ("cheap", "exp(1000)"),
        ("unbounded", "sum([[0]]*1000000, [])"), ("cheap", "-" * 9999 + "1"),
        ("unbounded", "2**3**4**5"), ("cheap", "sum([[0]]*10, [])"),
    ]
    if tier == "quick":
        return quick
    more = [
        ("unbounded", "7**7**7**7"), ("unbounded", "(9**9**9)**2"), ("unbounded", "-(9**9**9)"),
        ("unbounded", "abs(10**10**8)"), ("unbounded", "(9**9**9,)"), ("unbounded", "1 if 9**9**9 else 2"),
        ("unbounded", "99999999**99999999"), ("unbounded", "9**9**9 % 7"), ("unbounded", "not 9**9**9"),
        ("unbounded", "max(1, 9**9**9)"), ("unbounded", "rec(9**9**9)"), ("unbounded", "true and 9**9**9"),
        ("unbounded", "factorial(99999999) > 1"), ("unbounded", "len([factorial(100000000)])"),
        ("unbounded", "gcd(factorial(100000000), 2)"),
        ("unbounded", chain_str), ("unbounded", " + ".join([f"max([1]*{_G})"] * 400)),
        ("unbounded", " + ".join([f"len((1,)*{_G})"] * 400)),
        ("unbounded", "sum([(0,)]*1000000, ())"), ("unbounded", "len(sum([[0]]*1000000, [1]))"),
        ("cheap", "9**9**2"), ("cheap", "(-2)**63"), ("cheap", "2**-2"), ("cheap", "10**100"), ("cheap", "2.0**1e9"),
        ("cheap", "10**-10**8"), ("cheap", "factorial(170)"), ("cheap", "factorial(-5)"), ("cheap", "(0,)*1000"), ("cheap", "[0]*1000000000000"),
        ("cheap", "(1,2)*50"), ("cheap", "len('ab'*1000)"), ("cheap", "(0,)*1000000000000"),
        ("cheap", "1000000*'ab'*1000000"), ("cheap", "int('9'*4000)"), ("cheap", "float('9'*1000000)"),
        ("cheap", "pow(9, 387420489)"), ("cheap", "exp(10**6)"), ("cheap", "round(1.5, 1000000000)"),
        ("cheap", "gcd(9**9**4, 9**9**3)"), ("cheap", "1+" * 4999 + "1"), ("cheap", "(" * 4999 + "1" + ")" * 4999),
        ("cheap", "[" + "0," * 4998 + "0]"), ("cheap", "sum([1]*1000)"), ("cheap", "max([1]*1000)"),
        ("cheap", "x" * 10001), ("cheap", "9**9**9" + " " * 10000), ("cheap", "rec(2**64)"),
    ]
    return quick + more


def resource_child(arg):
    """Runs in a forked child under RLIMIT_AS / RLIMIT_CPU.  arg = (expr, timeout label)."""
    expr, tlabel = arg
    eng = mk_cfg_engine((tlabel, "inf", True, "none", "engulf"), "rec")
    t0 = time.process_time()
    res, detail, value = call(eng, expr, "auto")
    cpu = time.process_time() - t0
    return {"res": res, "detail": detail, "cpu_ms": int(cpu * 1000)}


# ---- which heavy primitive is the engine stuck in?  (harness-side static size estimate, keying only)
BIG = float("inf")
HEAVY_BITS = 1e6       # an int result of more than a million bits
HEAVY_ELEMS = 1e7      # a sequence of more than ten million elements
HEAVY_FACT = 1e5       # factorial argument
HEAVY_QUAD = 1e4       # sum(seq-of-seqs, start-seq): quadratic copying


class _Abs:
    __slots__ = ("kind", "size", "val")

    def __init__(self, kind, size=0.0, val=None):
        self.kind, self.size, self.val = kind, size, val


def first_heavy_primitive(expr):
    """Abstractly evaluate `expr` in the evaluator's order (operands left to right, then the operation) and
    return the name of the first operation whose estimated result size / cost is heavy, else None."""
    hit = []

    def flag(name):
        if not hit:
            hit.append(name)

    def ev(n):
        if isinstance(n, ast.Constant):
            v = n.value
            if isinstance(v, bool) or v is None:
                return _Abs("int", 1, int(bool(v)))
            if isinstance(v, int):
                return _Abs("int", v.bit_length(), v)
            if isinstance(v, (str, bytes)):
                return _Abs("seq", len(v))
            return _Abs("float")
        if isinstance(n, (ast.List, ast.Tuple)):
            els = [ev(e) for e in n.elts]
            a = _Abs("seq", len(els))
            a.val = els[0] if els else None  # element kind of the first element (for sum-concat)
            return a
        if isinstance(n, ast.UnaryOp):
            a = ev(n.operand)
            if isinstance(n.op, ast.Not):
                return _Abs("int", 1)
            if isinstance(n.op, ast.USub) and a.kind == "int" and a.val is not None:
                return _Abs("int", a.size, -a.val)
            return a
        if isinstance(n, ast.BinOp):
            l, r = ev(n.left), ev(n.right)
            if isinstance(n.op, ast.Pow) and l.kind == "int" and r.kind == "int":
                if r.val is not None and r.val < 0:
                    return _Abs("float")
                e = r.val if r.val is not None else BIG
                bits = max(l.size, 1) * e if (l.val is None or abs(l.val) > 1) else 1
                if bits > HEAVY_BITS:
                    flag("Pow-int")
                    return _Abs("int", bits)
                return _Abs("int", bits, l.val ** r.val if l.val is not None and bits <= 4096 else None)
            if isinstance(n.op, ast.Mult):
                for s, k in ((l, r), (r, l)):
                    if s.kind == "seq" and k.kind == "int":
                        cnt = k.val if k.val is not None else BIG
                        size = s.size * max(cnt, 0)
                        if size > HEAVY_ELEMS:
                            flag("Mult-seq")
                        a = _Abs("seq", size)
                        a.val = s.val
                        return a
                if l.kind == r.kind == "int":
                    return _Abs("int", l.size + r.size, l.val * r.val if None not in (l.val, r.val) and l.size + r.size < 4096 else None)
            if isinstance(n.op, ast.Add) and l.kind == r.kind == "seq":
                return _Abs("seq", l.size + r.size)
            if l.kind == r.kind == "int":
                return _Abs("int", max(l.size, r.size) + 1)
            return _Abs("float")
        if isinstance(n, ast.Call) and isinstance(n.func, ast.Name):
            args = [ev(a) for a in n.args]
            for kw in n.keywords:
                ev(kw.value)
            f = n.func.id
            if f == "factorial" and args and args[0].kind == "int":
                v = args[0].val if args[0].val is not None else BIG
                if v > HEAVY_FACT:
                    flag("factorial")
                    return _Abs("int", BIG)
                return _Abs("int", 64)
            if f == "sum" and len(args) == 2 and args[0].kind == "seq" and args[1].kind == "seq" \
                    and isinstance(args[0].val, _Abs) and args[0].val.kind == "seq":
                if args[0].size > HEAVY_QUAD:
                    flag("sum-concat")
                return _Abs("seq", args[0].size)
            if f in ("abs", "max", "min", "gcd", "int") and args:
                return max(args, key=lambda a: a.size if a.kind == "int" else 0)
            return _Abs("int", 64)
        if isinstance(n, ast.Compare):
            ev(n.left)
            for c in n.comparators:
                ev(c)
            return _Abs("int", 1)
        if isinstance(n, ast.BoolOp):
            for v in n.values:
                ev(v)
            return _Abs("int", 1)
        if isinstance(n, ast.IfExp):
            ev(n.test)
            ev(n.body)
            return ev(n.orelse)
        return _Abs("float")

    try:
        src = expr.replace("true", "1").replace("false", "0") if ("true" in expr or "false" in expr) else expr
        ev(ast.parse(src, mode="eval").body)
    except (SyntaxError, ValueError, RecursionError, MemoryError):
        return None
    return hit[0] if hit else None


def judge_resource(cls, expr, status, payload, tlabel="0.5"):
    """-> (outcome tuple, violation (key, what) or None | ('note', text))"""
    deadline, judged = resource_deadline(tlabel)
    tval = short(CFG_TIMEOUT[tlabel], 12)
    if status == "done":
        if payload["res"] in ("raise", "badtype"):
            return (cls, "raised", payload["detail"], tlabel != "0.5"), (
                f"raises:{payload['detail']}:silent",
                f"Mitochondria(timeout_seconds={tval}).metabolize({short(expr, 60)}) raised {payload['detail']}")
        return (cls, "returned-" + payload["res"], payload["detail"].split(":")[0], tlabel != "0.5"), None
    if status == "signal" and payload == signal.SIGXCPU:
        prim = first_heavy_primitive(expr)
        if not judged:
            return (cls, "cpu-deadline-unjudged", prim, True), ("note", (
                f"Mitochondria(timeout_seconds={tval}).metabolize({short(expr, 60)}) used more than {deadline} s of CPU; "
                f"that timeout gives no finite bound the harness can wait for, so this is not judged"))
        key = f"unbounded:{prim}" if prim else "over-deadline:no-heavy-primitive"
        return (cls, "cpu-deadline", prim, tlabel != "0.5"), (key, (
            f"Mitochondria(timeout_seconds={tval}).metabolize({short(expr, 60)}) was still running after "
            f"{deadline} s of CPU time (max(3 s, 6x its configured timeout)) and had to be "
            f"killed; first heavy primitive in evaluation order: {prim or 'none recognised'}; expected a result within a "
            f"bound governed by the timeout"))
    if status == "stuck":
        raise common.HarnessError(f"resource child for {short(expr, 60)} (timeout_seconds={tval}) used < {deadline}s "
                                  f"CPU in {WALL_BACKSTOP}s wall without finishing: machine too loaded to decide, re-run")
    what = f"signal {payload}" if status == "signal" else f"exit status {payload}"
    return (cls, "died", str(payload if status == "signal" else "exit"), tlabel != "0.5"), (
        f"interpreter-died:{'sig' + str(payload) if status == 'signal' else 'exit'}",
        f"Mitochondria(timeout_seconds={tval}).metabolize({short(expr, 60)}) under a 4 GiB address-space limit ended the process ({what}) instead of "
        f"returning a failure result")


# --------------------------------------------------------------------------------------------
# observation only: which operator classes does the evaluator accept?
# --------------------------------------------------------------------------------------------
DOCUMENTED_OPS = {"Add", "Sub", "Mult", "Div", "FloorDiv", "Mod", "Pow", "USub", "UAdd", "Not", "And", "Or",
                  "Eq", "NotEq", "Lt", "LtE", "Gt", "GtE"}
OP_SAMPLES = {"Add": "6 + 3", "Sub": "6 - 3", "Mult": "6 * 3", "Div": "6 / 3", "FloorDiv": "6 // 3", "Mod": "6 % 4",
              "Pow": "6 ** 2", "LShift": "1 << 3", "RShift": "8 >> 1", "BitOr": "6 | 3", "BitXor": "6 ^ 3",
              "BitAnd": "6 & 3", "MatMult": "6 @ 3", "Invert": "~6", "Not": "not 6", "UAdd": "+6", "USub": "-6",
              "And": "6 and 3", "Or": "0 or 3", "Eq": "6 == 6", "NotEq": "6 != 3", "Lt": "3 < 6", "LtE": "3 <= 6",
              "Gt": "6 > 3", "GtE": "6 >= 3", "Is": "pi is pi", "IsNot": "pi is not e", "In": "6 in (6, 3)",
              "NotIn": "6 not in (3,)"}


def operator_observation():
    classes = sorted(c.__name__ for base in (ast.operator, ast.unaryop, ast.boolop, ast.cmpop)
                     for c in base.__subclasses__())
    eng = mk_engine("none")
    accepted, unsampled = [], []
    n = 0
    for c in classes:
        if c not in OP_SAMPLES:
            unsampled.append(c)
            continue
        ok = False
        for pw in ("math", "logic", "auto"):
            n += 1
            ok = ok or call(eng, OP_SAMPLES[c], pw)[0] == "ok"
        if ok:
            accepted.append(c)
    return classes, accepted, unsampled, n


# --------------------------------------------------------------------------------------------
# run / replay
# --------------------------------------------------------------------------------------------
def _merge(ctx, tag, results):
    evals = 0
    best = {}  # key -> [what, case, n]; the reported case must not depend on the seed's enumeration order
    for r in results:
        evals += r["evals"]
        for o in r["outcomes"]:
            ctx.outcomes.add((tag,) + tuple(o))
        for key, v in r["viol"].items():
            b = best.setdefault(key, [v["what"], v["case"], 0])
            b[2] += v["n"]
            if repr(common.jsonable(v["case"])) < repr(common.jsonable(b[1])):
                b[0], b[1] = v["what"], v["case"]
    for key in sorted(best):
        what, case, n = best[key]
        for _ in range(n):
            ctx.report(key, what, case)
    ctx.stats[f"{tag}.evaluations"] += evals
    return evals


def run(ctx):
    quick = ctx.tier == "quick"
    depth = 2 if quick else 3
    nproc = common.NPROC
    total = 0
    distinct = 0
    phases = []
    _t = [time.time()]

    def lap(name):
        phases.append(f"{name}={time.time() - _t[0]:.1f}s")
        _t[0] = time.time()

    # ---- 1d history of the confinement clause: first, while this process has not evaluated any expression
    hist2_cov = run_hist2(ctx, nproc)
    total += hist2_cov["evaluations"]
    ctx.sample({"sub": "hist2-diff", "expr": "[true]", "a": "logic", "b": "math", "where": "other"})
    lap("history-of-confinement")
    # ---- 1a confinement: node classes
    found, forbidden, unprobed = node_class_table()
    ctxs = contexts(depth)
    n_sc = selfcheck_contexts(ctxs)
    order = common.rotate(range(len(PROBES)), ctx.seed)
    jobs = [(depth, [i]) for i in order]
    res = common.pmap(conf_worker, jobs)
    total += _merge(ctx, "conf", res)
    n_conf_exprs = sum(r["exprs"] for r in res)
    distinct += n_conf_exprs
    by_idx = dict(zip(order, res))
    for i in sorted(by_idx)[:2]:
        for smp in by_idx[i]["samples"][:1]:
            ctx.sample(smp)
    if unprobed:
        ctx.note(f"expression node classes of this interpreter with no probe (not judged): {unprobed}")

    lap("confinement")
    # ---- 1b name universe
    names, fancy = name_universe()
    allnames = names + sorted(fancy)
    n_sc += selfcheck_contexts([(t, "strict", None) for t, _ in NAME_HOLES if t != H])
    chunks = common.chunked(common.rotate(allnames, ctx.seed), max(1, min(nproc, 16)))
    res = common.pmap(names_worker, [(c, fancy) for c in chunks])
    total += _merge(ctx, "names", res)
    distinct += len(allnames) * len(SHAPES) * len(NAME_HOLES)
    unvetted = sorted(set().union(*[r["unvetted"] for r in res]) - {"rec"})
    accepted = sorted(set().union(*[r["accepted"] for r in res]))
    ctx.sample({"sub": "names", "expr": "getattr(1, 'real')"})

    # ---- 1c tricks
    tricks = trick_strings()
    res = common.pmap(tricks_worker, common.chunked(common.rotate(tricks, ctx.seed), max(1, min(nproc, 4))))
    total += _merge(ctx, "tricks", res)
    distinct += len(tricks)
    ctx.sample({"sub": "tricks", "expr": tricks[17][0]})

    classes, ops_accepted, ops_unsampled, n_ops = operator_observation()
    total += n_ops
    extra_ops = sorted(set(ops_accepted) - DOCUMENTED_OPS)
    if extra_ops:
        ctx.note(f"operator classes accepted beyond the documented set (observation, not judged): {extra_ops}")

    lap("names+tricks")
    # ---- 2 totality
    hostile, deep = hostile_strings()
    light = [("probe", fill(t, p)) for _, p in PROBES for t, _, _ in contexts(1)] + [("name", n) for n in allnames]
    light = list(dict.fromkeys(light))
    sweep = positional_sweep(ctx.tier)
    awkward = awkward_results()
    items = hostile + sweep + awkward + light
    res = common.pmap(totality_worker, common.chunked(common.rotate(items, ctx.seed), max(1, nproc)))
    for r in res:
        r["outcomes"] = [tuple(o) for o in r["outcomes"]]
    total += _merge(ctx, "total", res)
    r = run_totality_children(common.rotate(deep, ctx.seed), max(1, min(nproc, 16)))
    total += _merge(ctx, "total-child", [r])
    distinct += len(hostile) + len(deep) + len(sweep) + len(awkward)
    ctx.sample({"sub": "totality", "expr": hostile[0][1], "silent": False})
    lap("totality")
    # ---- 2b configuration space / callback answers / history (totality + confinement + tool discipline)
    cfgs = full_configs()
    core = core_expressions()
    res = common.pmap(config_worker, common.chunked(common.rotate(cfgs, ctx.seed), max(1, nproc * 4)))
    total += _merge(ctx, "config", res)
    cfg_rejected = sum(r["rejected"] for r in res)
    ok_labels = {o[4] for r in res for o in r["outcomes"] if len(o) == 6 and o[2] == "ok"}
    never_ok = [t for t in CFG_TIMEOUT if t not in ok_labels]
    if never_ok:
        ctx.note(f"under timeout_seconds in {[short(CFG_TIMEOUT[t], 12) for t in never_ok]} no core expression succeeds on any "
                 f"pathway: every evaluation comes back as a failure result (allowed by the statement; observation)")
    abandoned = sum(r.get("abandoned", 0) for r in res)
    distinct += len(cfgs) * len(core)
    ctx.sample({"sub": "config", "cfg": list(cfgs[0]), "expr": core[0][2], "entry": "auto"})
    tcfgs = [(t, "inf", sl, "none", "engulf") for t in CFG_TIMEOUT for sl in (True, False)]
    hitems = hostile + awkward
    res = common.pmap(hostile_config_worker, [(c, tcfgs) for c in common.chunked(common.rotate(hitems, ctx.seed),
                                                                                 max(1, nproc * 2))])
    total += _merge(ctx, "hostile-config", res)
    abandoned += sum(r.get("abandoned", 0) for r in res)
    distinct += len(hitems) * len(tcfgs)
    lap("config")
    star = star_configs()
    cdepth = 1 if quick else 2
    res = common.pmap(conf_cfg_worker, [(cdepth, [i], star) for i in order])
    total += _merge(ctx, "conf-config", res)
    abandoned += sum(r.get("abandoned", 0) for r in res)
    n_cfg_ctx = len(contexts(cdepth))
    distinct += len(PROBES) * n_cfg_ctx * len(star)
    lap("conf-config")
    answers, answers_skipped = tool_answers()
    res = common.pmap(answers_worker, [(c, tcfgs) for c in common.chunked(common.rotate(sorted(answers), ctx.seed),
                                                                           max(1, nproc))])
    total += _merge(ctx, "answers", res)
    abandoned += sum(r.get("abandoned", 0) for r in res)
    distinct += len(answers) * len(ANSWER_SHAPES) * len(tcfgs)
    hops = history_ops()
    prefixes = [()] + [(a,) for a in hops] + [(a, b) for a in hops for b in hops]
    res = common.pmap(history_worker, common.chunked(common.rotate(prefixes, ctx.seed), max(1, nproc * 4)))
    total += _merge(ctx, "history", res)
    abandoned += sum(r.get("abandoned", 0) for r in res)
    distinct += len(prefixes) * len(HISTORY_CASES) * 2
    ctx.sample({"sub": "history", "prefix": [list(hops[2]), list(hops[-5])], "expr": "rec(1)", "entry": "auto"})
    lap("answers+history")
    # ---- ROS latch histories (engine A).  Runs after the history family.  States are snapshots taken by a generic
    # by-value copy of the instance; when the snapshot/replay self-check does not hold on this tree (e.g. behaviour
    # depends on something outside the instance, which the history family reports) the search goes on without
    # snapshots, rebuilding every state by replaying its public-call history.  What remains inconsistent after that
    # (explore's canonical-key validation) is deferred instead of discarding the violations already found.
    from mc import explore
    ros_depth = 30 if quick else 60
    try:
        ros_model = RosModel()
        bad_snapshot = ros_model.selfcheck_clone()
        if bad_snapshot:
            # go without snapshots: every state is rebuilt by replaying its public-call history on fresh objects
            ros_model.clone = None
            ctx.note(f"ROS history search: {bad_snapshot}; states are rebuilt by replay instead of snapshots")
        ctx.stats["ros.snapshots_used"] += 0 if bad_snapshot else 1
        ros = explore.explore(ros_model, ctx, ros_depth, nproc=1, label="ros", validate_canon=40, max_states=ROS_MAX_STATES)
    except common.HarnessError as e:
        # deferred: only ends the run with exit 2 if no engine of this check finds a violation at all
        ctx.defer_harness_error(f"ROS history search: {e}")
        ctx.note(f"ROS history search abandoned: {e} (if the engine's state is not confined to the instance - which the "
                 f"history families report - two replays of one history need not agree on this tree)")
        ros = {"states": 1, "transitions": 1, "fixpoint": False, "depth_completed": 0, "capped": False}
    total += ros["transitions"]
    lap("ros")
    # ---- 3 resource
    cases = resource_cases(ctx.tier)
    rot = common.rotate(cases, ctx.seed)
    rres = run_children(resource_child, [(e, t) for _, e, t in rot], [resource_deadline(t)[0] for _, _, t in rot],
                        max(1, min(nproc, 16)))
    slow_cheap = []
    n_over = 0
    for (cls, expr, tl), (status, payload) in sorted(zip(rot, rres), key=lambda z: cases.index(z[0])):
        try:
            outcome, viol = judge_resource(cls, expr, status, payload, tl)
        except common.HarnessError as e:
            ctx.defer_harness_error(str(e))
            ctx.note(f"undecided resource case: {e}")
            continue
        ctx.outcomes.add(("resource",) + outcome)
        total += 1
        if viol and viol[0] == "note":
            ctx.note(viol[1])
        elif viol:
            ctx.report(viol[0], viol[1], {"sub": "resource", "cls": cls, "expr": expr, "timeout": tl})
        if status != "done":
            n_over += 1
        elif payload["cpu_ms"] * 10 > DEADLINE_S * 1000:
            slow_cheap.append((short(expr, 40), payload["cpu_ms"]))
    distinct += len(cases)
    ctx.stats["resource.cases"] += len(cases)
    ctx.stats["resource.over_deadline"] += n_over
    ctx.sample({"sub": "resource", "expr": "9**9**9", "cls": "unbounded"})
    if slow_cheap:
        ctx.note(f"returned but used more than 10% of the deadline (margin eroded, not judged): {slow_cheap[:5]}")

    lap("resource")
    if os.environ.get("VERIF_C01_TIMING"):
        print("C01 phases:", " ".join(phases))
    if unvetted:
        ctx.note(f"names accepted that the harness does not know as documented-pure (observation): {unvetted}")
    if abandoned:
        ctx.note(f"{abandoned} worker jobs of the configuration / history families gave up after {WATCHDOG_MAX_HITS} calls "
                 f"that had to be interrupted (no-return:* violations recorded); their remaining cases were not run")
        ctx.coverage["caps_hit"] = f"{abandoned} in-process worker jobs abandoned after interrupted calls"
    if cfg_rejected:
        ctx.note(f"{cfg_rejected} engine constructions were refused by the constructor for their configuration "
                 f"(not the evaluator; those configurations were not judged)")
    ctx.coverage.update(
        states=ros["states"],
        transitions=ros["transitions"],
        traces_validated_against_impl=total,
        evaluations=total,
        distinct_nontrivial=distinct,
        rule="engine D: every (forbidden-node probe x allowed context with one hole up to the stated depth) string, "
             "every (name x call shape), every trick/hostile/magnitude string, each run on every pathway x tool set "
             "(x silent setting for totality) of the real Mitochondria; section 2b crosses the constructor "
             "configuration space (timeout_seconds x max_ros x silent x allowed_capabilities, full product, plus the "
             "three registration routes) with a core expression set on every entry point on fresh engines (each call "
             "twice), the hostile / awkward strings with timeout x silent, the depth-limited confinement contexts with "
             "every configuration one dimension away from the baseline, every tool answer (return values, every "
             "builtin Exception class) with timeout x silent, and every prefix of <=2 public operations (same engine, "
             "another engine, re-registration, attribute setting) with a judged case set; the resource alphabet is "
             "crossed with the timeout values; distinct_nontrivial counts distinct input "
             "strings (per probe for confinement), all of which contain a forbidden construct, an unknown name, a "
             "hostile feature or a size-like operand; states/transitions are the ROS-latch history search "
             "(canonical state = (ros level, latched))",
        exhaustive=not unprobed and not abandoned and not hist2_cov["abandoned"],  # every stated finite space (strings below; ROS histories up to ros_depth) is enumerated completely
        ros_history_depth=ros_depth,
        context_depth=depth,
        contexts=len(ctxs),
        contexts_selfchecked_against_python=n_sc,
        probes=len(PROBES),
        expr_node_classes_found=found,
        forbidden_classes_probed=[c for c in forbidden if c not in unprobed],
        unprobed_classes=unprobed,
        pathways=list(PW_ORDER),
        tool_sets={k: list(v) for k, v in TOOLSETS.items()},
        name_universe=len(allnames),
        call_shapes=len(SHAPES),
        name_placements=[t for t, _ in NAME_HOLES],
        literal_only_classes=sorted(LITERAL_ONLY_NODES),
        names_accepted=accepted,
        unvetted_names=unvetted,
        operator_classes_found=classes,
        operators_accepted=ops_accepted,
        operators_unsampled=ops_unsampled,
        hostile_strings=len(hostile) + len(deep),
        positional_sweep_strings=len(sweep),
        positional_sweep_chars=[c for c, _ in WIDE_CHARS],
        awkward_result_strings=len(awkward),
        entry_points=list(ENTRY_POINTS),
        ros_fixpoint=ros["fixpoint"],
        ros_depth_completed=ros["depth_completed"],
        resource_cases=len(cases),
        resource_timeout_labels=sorted({t for _, _, t in cases}),
        config_timeout_values=[short(v, 14) for v in CFG_TIMEOUT.values()],
        config_max_ros_values=[short(v, 14) for v in CFG_MAXROS.values()],
        config_capability_sets=list(CFG_CAPS),
        config_registration_routes=list(CFG_REG),
        configurations_full_product=len(cfgs),
        configurations_rejected_by_constructor=cfg_rejected,
        core_expressions=len(core),
        configurations_star=len(star),
        conf_config_context_depth=cdepth,
        conf_config_contexts=n_cfg_ctx,
        tool_answers=len(answers),
        tool_answer_exception_classes_skipped=answers_skipped,
        history_prefix_ops=len(hops),
        history_prefixes=len(prefixes),
        history_prefix_depth=2,
        history_cases=len(HISTORY_CASES),
        history_of_confinement=hist2_cov,
        resource_deadline_cpu_s=DEADLINE_S,
        resource_engine_timeout_s=ENGINE_TIMEOUT,
        resource_as_limit_bytes=AS_LIMIT,
    )
    if ros.get("capped"):
        ctx.coverage["exhaustive"] = False
        ctx.coverage["caps_hit"] = (ctx.coverage.get("caps_hit", "") and ctx.coverage["caps_hit"] + "; ") + (
            f"ROS history search stopped at {ROS_MAX_STATES} canonical states (instances carry growing state)")
    if not ros["fixpoint"]:
        ctx.coverage["caps_hit"] = (ctx.coverage.get("caps_hit", "") and ctx.coverage["caps_hit"] + "; ") + (
            f"ROS history search is depth-bounded ({ros['depth_completed']}): the level is a float "
                                    f"sum of 0.1 steps, so exact-state search has no fixpoint; all histories up to that "
                                    f"depth are covered")
    ctx.assumptions += [
        "confinement contexts nest the allowed forms to depth %d with one hole; deeper or multi-hole placements are "
        "covered only by compositionality of the recursive walker" % depth,
        "strictness of every context was checked against Python's own evaluation order, not against the evaluator",
        "resource verdicts use kernel CPU-time accounting (RLIMIT_CPU=%ds => SIGXCPU) in a forked child, so machine "
        "load cannot turn a cheap case into a violation; 'unbounded' magnitudes need >= 10x the deadline even at "
        "optimistic throughput; memory is capped with RLIMIT_AS=4GiB" % DEADLINE_S,
        "tool bodies are the user's code and out of scope; only whether/when they are invoked is judged",
        "stdout for silent=False is a strict UTF-8 text stream (PYTHONIOENCODING=utf-8 / UTF-8 locale)",
        "only str inputs; recursion limit at its default (1000)",
        "Dict/Set displays (and a call such as set() of a name the engine itself refuses at the root) count as "
        "evaluated-outside-the-allow-list on the math, logic and tool pathways and on auto unless the whole string "
        "is pure JSON / Python literal data; on the data-transformation pathway literal parsing is the documented "
        "purpose and they are not judged",
        "digest_glucose's contract is taken to be: returns a str for every input (rendered value or failure text)",
        "configuration values are ints/floats for timeout_seconds and max_ros (including 0, -0.0, denormal, huge, a "
        "huge int, inf, nan; negative and non-numeric values are outside the documented parameter types); a constructor "
        "that refuses a configuration is not judged (the statement is about evaluating expression strings)",
        "a registered tool may return anything and raise any Exception subclass (the engine must turn it into a "
        "failure result); BaseException-only classes (KeyboardInterrupt, SystemExit, GeneratorExit) and results / "
        "exceptions whose own __str__ raises are the tool author's way of breaking the process and are not judged",
        "which tools an engine has registered is tracked by the harness from the public registration calls it made "
        "(engulf_tool / register_function / tools= / tools.pop), never read back from the engine",
        "a string that a fresh engine with the same tools refuses must not succeed after a history of other calls "
        "(its value could not have been computed from the string by the allow-listed pure operations alone); "
        "differences in the other direction (ROS latch, zero timeout) are legitimate and not judged",
        "for timeout values whose 6x multiple is not a waitable finite time (> 30 s, inf, nan) exceeding the 3 s CPU "
        "limit on a cheap expression is noted, not judged",
        "history of the confinement clause: sequences are two calls of the SAME text (every ordered pair of entry points, "
        "same / second engine, tool set ['rec'], baseline options; the second engine gets its tool through the constructor), "
        "run back to back in a process that is new to the text while the engines carry the history of the slice's other "
        "texts; longer sequences of one text and other tool sets are not enumerated; only refusal -> acceptance is "
        "judged (acceptance -> refusal is the ROS latch's legitimate direction); the position-independence oracle of the "
        "name universe (needs the root answers of another text) is not re-applied per sequence - the differential clause "
        "subsumes it for everything that is refused when fresh",
        "history prefixes are depth 2 in both tiers; the positional sweep and the deep-nesting children are not crossed "
        "with the timeout dimension",
    ]


def replay(ctx, case):
    sub = case.get("sub") if isinstance(case, dict) else None
    if sub == "confinement":
        return replay_confinement(case)
    if sub == "names":
        return replay_names(case)
    if sub == "tricks":
        return replay_tricks(case)
    if sub == "totality":
        r = totality_worker([(case["tag"], case["expr"])])
        return [(k, v["what"]) for k, v in r["viol"].items()]
    if sub == "totality-child":
        r = run_totality_children([(case["tag"], case["expr"])], 1)
        return [(k, v["what"]) for k, v in r["viol"].items()]
    if sub == "resource":
        tl = case.get("timeout", "0.5")
        (status, payload), = run_children(resource_child, [(case["expr"], tl)], resource_deadline(tl)[0], 1)
        _, viol = judge_resource(case["cls"], case["expr"], status, payload, tl)
        return [viol] if viol and viol[0] != "note" else []
    if sub == "config":
        return replay_config(case)
    if sub == "hostile-config":
        r = hostile_config_worker(([(case["tag"], case["expr"])], [tuple(case["cfg"])]))
        return [(k, v["what"]) for k, v in r["viol"].items()]
    if sub == "conf-config":
        return replay_conf_config(case)
    if sub == "answers":
        return replay_answers(case)
    if sub == "history":
        return replay_history(case)
    if sub in ("hist2", "hist2-diff", "hist2-long"):
        return replay_hist2(case)
    if "root" in case:
        from mc import explore
        return explore.replay_case(RosModel(), {"root": list(case["root"]), "hist": [list(o) for o in case["hist"]],
                                                "op": list(case["op"])})
    raise common.HarnessError(f"unknown case shape: {case!r}")
