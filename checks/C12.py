"""C12 — template rendering follows the documented grammar; bound values stay data.

Engine D: every template of <= N segments from the documented grammar x contexts is rendered by the real
Ribosome and by an independent single-pass recursive-descent reference renderer (tokenise once, expand each
construct once, left to right, values verbatim).

phase 1  delimiter-free values: output equality, warnings for needed unbound plain variables, strict mode
         (must raise when a needed plain variable is unbound, must not raise when everything referenced is bound).
phase 2  opacity: one slot at a time (scalar value, loop item, dict field, second variable, default literal)
         carries an active payload; the output must be the reference output with the payload verbatim.
         key = reinterpreted:<entry channel>:<payload construct>; the channel is found by re-running every
         single segment (loop bodies: every single atom; includes: the child itself) of the failing template.
         Payloads = every template construct + text made of the private-use characters U+E000..U+E002 (characters
         that are not template syntax at all must come out unchanged); slots = bound value, loop item, dict field,
         second variable, default literal, literal template text, the return value of a custom filter.
phase 2u the same value slots with the names used inside the payload left UNBOUND: strict mode must not raise for a
         name that only occurs inside a value and no warning may name it.
shadow   loops over dict items whose keys shadow the loop specials / an outer variable, outer variables named like
         the loop specials, loop specials referenced outside a loop.
api      the other public ways to render (translate(mRNA), translate(name) after create_template /
         register_template(name=...) re-registered under one name for every template), a fresh instance per case, a
         second live instance built through the constructor (templates=, no custom filters, not silent) with
         different templates under the same names, an instance whose included children were re-registered.
iso      instance isolation: three judged instances (default constructor + register_template; no templates; own
         filters= and templates=), each built BETWEEN sibling instances that were given other names through every
         instance-level extension point (constructor filters= / templates=, register_template, its name= override,
         create_template; before and after the judged instance, one sibling extended later) and that re-define the
         built-in filter names and the judged instance's template names. Templates mention every sibling-only name in
         every role it could be confused with (default word, include target -> unknown-include marker, plain/optional
         variable) and are rendered right after siblings rendered them; reference = the judged instance's OWN tables.
adj      adjacency: every documented construct string is split into 2 and 3 non-empty FRAGMENTS (every split) and the
         fragments are placed, in order, into ADJACENT emission sites of every kind (plain / optional / defaulted /
         filtered / custom-filtered variable, loop item / dot / dict field, consecutive loop items with no separator,
         include output, default literal, literal template text), at top level, inside an included child, inside if /
         else / loop bodies. Each fragment alone is harmless; only their concatenation spells the construct. Oracle:
         the reference expansion (fragments verbatim); for templates whose text carries no fragment also a
         differential one: warnings and the strict-mode outcome must equal those of the same template rendered with
         inert fragments (a spurious "Unbound variable" warning is a re-interpretation too).
The instances under test are built with custom filters passed to the constructor.
"""
from __future__ import annotations

import contextlib
import io
import itertools
import json as _json
import re

from mc import common

from operon_ai.organelles.ribosome import Ribosome, mRNA

# ----------------------------------------------------------------------------------------------
# reference renderer (written from the class documentation; does not import any library table)
# ----------------------------------------------------------------------------------------------


class Unspecified(Exception):
    """The documentation does not say what this construct does with this value: case not judged."""


def _f_length(x):
    if not isinstance(x, (str, list, tuple, dict)):
        raise Unspecified("length of a value without len()")
    return str(len(x))


def _f_json(x):
    return _json.dumps(x)


REF_FILTERS = {
    "upper": lambda x: str(x).upper(),
    "lower": lambda x: str(x).lower(),
    "trim": lambda x: str(x).strip(),
    "title": lambda x: str(x).title(),
    "length": _f_length,
    "json": _f_json,
    "repr": lambda x: repr(x),
}
_NAME = re.compile(r"\w+\Z")
_PARSED: dict = {}


def parse(s, custom=True):
    """Tokenise once, left to right. Nodes: ('t',text) ('v',name,raw) ('o',name) ('d',name,default)
    ('f',name,filter,raw) ('if',name,then,else|None) ('each',name,body) ('inc',name).
    custom: whether the instance was given the harness's custom filters (a|name is a filter only if registered)."""
    got = _PARSED.get((s, custom))
    if got is None:
        if len(_PARSED) > 100000:
            _PARSED.clear()
        nodes, pos, stop = _parse_seq(s, 0, (), FILTER_SETS[custom])
        assert stop is None and pos == len(s)
        got = _PARSED[(s, custom)] = nodes
    return got


def _tag(s, i):
    """-> (inner, end) for the tag opening at i, or None if it never closes."""
    j = s.find("}}", i + 2)
    if j < 0:
        return None
    return s[i + 2 : j], j + 2


def _parse_seq(s, pos, stops, filters):
    nodes = []
    buf = []

    def flush():
        if buf:
            nodes.append(("t", "".join(buf)))
            buf.clear()

    n = len(s)
    while pos < n:
        i = s.find("{{", pos)
        if i < 0:
            buf.append(s[pos:])
            pos = n
            break
        buf.append(s[pos:i])
        tg = _tag(s, i)
        if tg is None:  # half-open: the rest is text
            buf.append(s[i:])
            pos = n
            break
        inner, end = tg
        if inner in stops:
            flush()
            return nodes, end, inner
        m = re.match(r"#if\s+(\w+)\Z", inner)
        if m:
            then, p2, st = _parse_seq(s, end, ("#else", "/if"), filters)
            els = None
            if st == "#else":
                els, p2, st = _parse_seq(s, p2, ("/if",), filters)
            if st is None:  # unterminated block: literal text
                buf.append(s[i:end])
                pos = end
                continue
            flush()
            nodes.append(("if", m.group(1), then, els))
            pos = p2
            continue
        m = re.match(r"#each\s+(\w+)\Z", inner)
        if m:
            body, p2, st = _parse_seq(s, end, ("/each",), filters)
            if st is None:
                buf.append(s[i:end])
                pos = end
                continue
            flush()
            nodes.append(("each", m.group(1), body))
            pos = p2
            continue
        raw = s[i:end]
        node = None
        if inner[:1] == ">" and _NAME.match(inner[1:]):
            node = ("inc", inner[1:])
        elif inner[:1] == "?" and _NAME.match(inner[1:]):
            node = ("o", inner[1:])
        elif inner == "." or _NAME.match(inner):
            node = ("v", inner, raw)
        else:
            m = re.match(r"(\w+)\|([^}]*)\Z", inner, re.S)
            if m:
                if m.group(2) in filters:
                    node = ("f", m.group(1), m.group(2), raw)
                else:
                    node = ("d", m.group(1), m.group(2))
        if node is None:  # not a construct: the braces are text, rescan after them
            buf.append("{{")
            pos = i + 2
            continue
        flush()
        nodes.append(node)
        pos = end
    flush()
    return nodes, pos, None


class Ref:
    """One left-to-right expansion. pieces: str, or ('MISS', raw) for an unbound plain/filtered variable
    (the documentation fixes no text for it: the raw placeholder or the empty string are both accepted)."""

    def __init__(self, registry, ctx, custom=True, dict_wins=True):
        self.registry = registry
        self.ctx = ctx
        self.custom = custom
        self.filters = FILTER_SETS[custom]
        self.dict_wins = dict_wins  # a dict item's key named like a loop special: which of the two is seen
        self.pieces = []
        self.needed_unbound = []  # (name, where) plain variables expanded while unbound

    def render(self, nodes, scope, where, in_loop=False, depth=0):
        out = self.pieces
        for nd in nodes:
            k = nd[0]
            if k == "t":
                out.append(nd[1])
            elif k == "v":
                name = nd[1]
                if name == "." and not in_loop:
                    out.append(nd[2])
                elif name in scope:
                    out.append(str(scope[name]))
                else:
                    out.append(("MISS", nd[2]))
                    self.needed_unbound.append((name, where))
            elif k == "o":
                out.append(str(scope[nd[1]]) if nd[1] in scope else "")
            elif k == "d":
                out.append(str(scope[nd[1]]) if nd[1] in scope else nd[2])
            elif k == "f":
                if nd[1] in scope:
                    out.append(self.filters[nd[2]](scope[nd[1]]))
                else:
                    out.append(("MISS", nd[3]))
            elif k == "if":
                if scope.get(nd[1]):
                    self.render(nd[2], scope, where + "/if-body", in_loop, depth)
                elif nd[3] is not None:
                    self.render(nd[3], scope, where + "/else-body", in_loop, depth)
            elif k == "each":
                if nd[1] not in scope:
                    continue
                items = scope[nd[1]]
                if not isinstance(items, (list, tuple)):
                    raise Unspecified("each over a non-list")
                n = len(items)
                for i, item in enumerate(items):
                    sc = dict(scope)
                    if isinstance(item, dict) and not self.dict_wins:
                        sc.update(item)
                    sc.update({".": item, "item": item, "index": i, "first": i == 0, "last": i == n - 1})
                    if isinstance(item, dict) and self.dict_wins:
                        sc.update(item)
                    self.render(nd[2], sc, where + "/loop-body", True, depth)
            elif k == "inc":
                if nd[1] in self.registry:
                    if depth >= 8:
                        raise Unspecified("include cycle")
                    self.render(parse(self.registry[nd[1]], self.custom), self.ctx, "include", False, depth + 1)
                else:
                    out.append("[Unknown template: %s]" % nd[1])
            else:  # pragma: no cover
                raise AssertionError(nd)

    def alternatives(self):
        raw = "".join(p if isinstance(p, str) else p[1] for p in self.pieces)
        emp = "".join(p if isinstance(p, str) else "" for p in self.pieces)
        return (raw, emp) if raw != emp else (raw,)


LOOP_LOCALS = ("item", "index", "first", "last")


def static_unbound(nodes, registry, ctx, scope=None, in_loop=False, depth=0, acc=None, custom=True):
    """Every variable referenced anywhere (dead branches, empty loops, includes) that nothing binds.
    Loop-locals count as bound; dict fields count as bound when every item of a non-empty list has them."""
    acc = set() if acc is None else acc
    scope = ctx if scope is None else scope
    for nd in nodes:
        k = nd[0]
        if k in ("v", "o", "d", "f"):
            if nd[1] == ".":
                if not in_loop:
                    acc.add(".")
            elif nd[1] not in scope:
                acc.add(nd[1])
        elif k == "if":
            if nd[1] not in scope:
                acc.add(nd[1])
            static_unbound(nd[2], registry, ctx, scope, in_loop, depth, acc, custom)
            if nd[3] is not None:
                static_unbound(nd[3], registry, ctx, scope, in_loop, depth, acc, custom)
        elif k == "each":
            items = scope.get(nd[1]) if nd[1] in scope else None
            if nd[1] not in scope:
                acc.add(nd[1])
            sc = dict(scope)
            sc.update({x: None for x in LOOP_LOCALS})
            sc["."] = None
            if isinstance(items, (list, tuple)) and items:
                keys = None
                for it in items:
                    ks = set(it) if isinstance(it, dict) else set()
                    keys = ks if keys is None else keys & ks
                sc.update({x: None for x in keys})
            static_unbound(nd[2], registry, ctx, sc, True, depth, acc, custom)
        elif k == "inc":
            if nd[1] in registry and depth < 8:
                static_unbound(parse(registry[nd[1]], custom), registry, ctx, ctx, False, depth + 1, acc, custom)
    return acc


# ----------------------------------------------------------------------------------------------
# grammar: template ASTs (JSON-able) -> template text
# ----------------------------------------------------------------------------------------------
def emit_atom(a):
    return a[1] if a[0] == "text" else "{{%s}}" % a[1]


def emit_seg(s):
    k = s[0]
    if k == "text":
        return s[1]
    if k == "var":
        return "{{%s}}" % s[1]
    if k == "opt":
        return "{{?%s}}" % s[1]
    if k in ("def", "filt"):
        return "{{%s|%s}}" % (s[1], s[2])
    if k == "if":
        t = "{{#if %s}}%s" % (s[1], "".join(emit_atom(a) for a in s[2]))
        if s[3] is not None:
            t += "{{#else}}" + "".join(emit_atom(a) for a in s[3])
        return t + "{{/if}}"
    if k == "each":
        return "{{#each %s}}%s{{/each}}" % (s[1], "".join(emit_atom(a) for a in s[2]))
    if k == "inc":
        return "{{>%s}}" % s[1]
    raise AssertionError(s)


def emit(tpl):
    return "".join(emit_seg(s) for s in tpl)


T, V = "text", "var"
REG_AST = {
    "leaf": ((T, "L["), (V, "v"), (T, "]")),
    "mid": ((T, "M<"), ("inc", "leaf"), (T, "|"), ("opt", "w"), (T, ">")),
    "top": ((T, "T("), ("inc", "mid"), (T, ")")),
    "lopt": ((T, "O["), ("opt", "v"), (T, "/"), ("def", "v", "n/a"), (T, "]")),
    "lblk": (("if", "v", ((V, "w"),), ((T, "none"),)), ("each", "v", ((V, "item"), (T, ";")))),
    "other": ((T, "OTHER-TPL"),),
}
REGISTRY = {k: emit(v) for k, v in REG_AST.items()}
# the same names with other texts / other structure: second instance, re-registered children
ALT_AST = {
    "leaf": ((T, "l2("), ("opt", "v"), (T, ")")),
    "mid": ((T, "m2<"), ("inc", "leaf"), (T, ">")),
    "top": ((T, "t2:"), ("inc", "leaf"), ("inc", "mid"), (T, ".")),
    "lopt": ((T, "o2["), ("def", "w", "dflt"), (T, "]")),
    "lblk": (("each", "v", ((V, "index"), (T, ","))),),
    "other": ((T, "OTHER-2"),),
}
ALT_REGISTRY = {k: emit(v) for k, v in ALT_AST.items()}
REREG_REGISTRY = dict(REGISTRY, leaf=ALT_REGISTRY["leaf"], lopt=ALT_REGISTRY["lopt"])
FILTERS_ALL = ("upper", "lower", "trim", "title", "length", "json", "repr")
ATOMS = ((T, "-"), (V, "."), (V, "item"), (V, "index"), (V, "first"), (V, "last"), (V, "k"), (V, "w"))
ATOM_LABEL = {".": "dot", "k": "dict-field", "w": "outer-variable"}


def seg_kinds(level):
    """Segment kinds over the main variable v (w appears inside blocks). level: 'core' | 'std' | 'full' | 'shadow'."""
    if level == "shadow":  # names of loop specials / dict fields used outside loops too, every single loop atom
        ks = [(T, "t;"), (V, "index"), (V, "item"), (V, "k"), (V, "w"), ("opt", "first"), ("def", "last", "n/a"),
              ("if", "first", ((V, "last"),), ((V, "index"),))]
        ks += [("each", "v", (a,)) for a in ATOMS]
        ks += [("each", "v", ((V, "index"), (V, "k"), (V, "w"))), ("each", "v", ((V, "item"), (V, "first"), (V, "last"))),
               ("inc", "lblk")]
        return ks
    ks = [(T, "t;"), (V, "v"), ("opt", "v"), ("def", "v", "n/a x"), ("def", "v", "")]
    if level != "core":
        ks.append(("def", "v", "Guest"))
    ks += [("filt", "v", f) for f in {"core": ("trim",), "std": ("upper", "trim", "length", "json"),
                                      "full": FILTERS_ALL}[level]]
    ks += [("if", "v", ((T, "Y"),), None), ("if", "v", ((T, "Y"),), ((V, "w"),))]
    if level != "core":
        ks += [("if", "v", ((V, "w"),), None), ("if", "v", ((V, "w"),), ((T, "N"),)), ("if", "v", ((T, "Y"),), ((T, "N"),))]
    if level == "core":
        bodies = [((V, "item"), (T, "-")), ((V, "index"), (V, "last"), (V, "k"))]
    else:
        bodies = [(a,) for a in ATOMS]
        if level == "std":
            bodies += [((V, "index"), (T, ":"), (V, "."), (T, " ")), ((V, "first"), (V, "last")), ((V, "k"), (V, "w"))]
        else:
            bodies += [p for p in itertools.permutations(ATOMS, 2)]
    ks += [("each", "v", b) for b in bodies]
    ks += [("inc", n) for n in {"core": ("nope", "top"), "std": ("nope", "leaf", "top", "lblk"),
                                "full": ("nope", "leaf", "mid", "top", "lopt", "lblk")}[level]]
    return ks


def number_text(tpl):
    return tuple((T, "t%d;" % i) if s[0] == T else s for i, s in enumerate(tpl))


def templates(plan):
    """plan: [(level, n)] -> every template of exactly n segments over that level's kinds, deduplicated by text."""
    seen = set()
    out = []
    for level, n in plan:
        for tpl in itertools.product(seg_kinds(level), repeat=n):
            tpl = number_text(tpl)
            s = emit(tpl)
            if s not in seen:
                seen.add(s)
                out.append(tpl)
    return out


MISSING = "__missing__"
STR = " vV x"
W_VALUES = (MISSING, "", STR, 0, 7, True, False, None, ["a", "b"], [], [{"k": "x"}])
V_VALUES = W_VALUES + ([0, "", None], [{"k": 0}, {"k": ""}])  # falsy-but-valid loop items and dict fields
STRICT_V = (MISSING, STR, 0, ["a", "b"], [], [{"k": "x"}])
# private-use characters are not template syntax: wherever they enter they must come out unchanged
STANDINS = (("private-use-char", "\ue000"), ("private-use-variable", "\ue000\ue000secret\ue001\ue001"),
            ("private-use-escape", "\ue002\ue001\ue002\ue002"))
PAYLOADS = (
    ("simple-variable", "{{secret}}"), ("optional-variable", "{{?secret}}"), ("filtered-variable", "{{secret|upper}}"),
    ("defaulted-variable", "{{secret|none}}"), ("include", "{{>other}}"), ("if-block", "{{#if secret}}X{{/if}}"),
    ("each-block", "{{#each xs}}{{item}}{{/each}}"), ("loop-dot", "{{.}}"), ("loop-index", "{{index}}"),
    ("half-open", "{{"),
) + STANDINS
DEFAULT_PAYLOADS = (("simple-variable", "{{secret"), ("optional-variable", "{{?secret"), ("include", "{{>other"),
                    ("loop-dot", "{{."), ("half-open", "{{")) + STANDINS
TEXT_PAYLOADS = STANDINS  # literal template text that is not template syntax
NEUTRAL = "NEUTRAL"
P2_BASE = {"secret": "S3CR3T", "xs": ["X1", "X2"]}
U_CONSTRUCTS = ("simple-variable", "each-block", "include", "private-use-variable")  # phase 2u
# custom filters handed to the constructor: what they return is the filtered variable's text
FILTER_PAYLOADS = PAYLOADS + (("plain-text", "<cf>"), ("empty-string", ""))
CUSTOM_FILTERS = {}
for _i, (_c, _p) in enumerate(FILTER_PAYLOADS):
    CUSTOM_FILTERS["cf%d" % _i] = (lambda x, _p=_p: "%s<%s>" % (_p, x)) if _p else (lambda x: "")
CUSTOM_FILTERS["cf_neutral"] = lambda x: "%s<%s>" % (NEUTRAL, x)
CUSTOM_FILTERS["cf_id"] = lambda x: str(x)  # adjacency family: a custom filter whose result is the value itself
FILTER_SETS = {False: REF_FILTERS, True: dict(REF_FILTERS, **CUSTOM_FILTERS)}
SHADOW_V = (["a", "b"], [{"k": "x"}], [{"k": "x", "w": "Wd"}],
            [{"item": "It", "index": "Ix", "first": "", "last": "La"}], ["a", {"index": "Ix", "w": "Wd"}, "c"])
OUTER_SPECIALS = {"item": "oI", "index": "oX", "first": "oF", "last": "", "k": "oK"}
API_V = STRICT_V + ("{{>other}}{{secret}}",)


def mkctx(v, w, base=None):
    c = dict(base or {})
    if not (isinstance(v, str) and v == MISSING):
        c["v"] = v
    if not (isinstance(w, str) and w == MISSING):
        c["w"] = w
    return c


# ----------------------------------------------------------------------------------------------
# running the real implementation, judging, attributing
# ----------------------------------------------------------------------------------------------
# instances under test. 'custom': built with the harness's custom filters (constructor argument `filters`).
ENVS = {
    "main": dict(registry=REGISTRY, custom=True),     # long-lived, register_template(mRNA) one by one, silent
    "entry": dict(registry=REGISTRY, custom=True),    # long-lived; every template is (re-)registered under one name
    "alt": dict(registry=ALT_REGISTRY, custom=False),  # long-lived; constructor `templates=`, no filters, not silent
    "rereg": dict(registry=REREG_REGISTRY, custom=True),  # main's registry, then two children registered again
}
_RIB = {}
RENDERS = [0, 0]  # compared renders, translate() executions they caused (includes recurse)
ENTRY_NAME = "entry_point"

# ---- isolation family: what OTHER instances in the process were given must not change what an instance renders ----
# judged instances; each is built between sibling instances (see iso_group) and judged against ITS OWN registry/filters
ISO_ENVS = {
    "iso-default": dict(registry=REGISTRY, custom=False),  # Ribosome(strict=) + register_template, not silent
    "iso-bare": dict(registry={}, custom=False),           # Ribosome(strict=, silent=True): no template at all
    "iso-custom": dict(registry=ALT_REGISTRY, custom=True),  # Ribosome(templates=, filters=): its own filters/templates
}
ENVS.update(ISO_ENVS)
# names that only a SIBLING instance knows: name -> (table it was put in, how it got there)
SIB_FILTER_NAMES = {"sfb": "constructor-filters:sibling-built-before", "sfa": "constructor-filters:sibling-built-after"}
SIB_TEMPLATE_NAMES = {
    "stcb": "constructor-templates:sibling-built-before", "stca": "constructor-templates:sibling-built-after",
    "strb": "register_template:sibling-built-before", "stra": "register_template:sibling-built-after",
    "stnb": "create_template:sibling-built-before", "stna": "create_template:sibling-built-after",
    "stob": "register_template-name-override:sibling-built-before", "stoa": "register_template-name-override:sibling-built-after",
    "stlb": "create_template:earlier-sibling-extended-later",
}
_ISO = {}


def _sib_text(name):
    return "SIB-TPL<%s>{{?v}}" % name


def _sib_filters(own_name):
    """A sibling's constructor filters: its own new name + its own versions of every built-in / harness filter name."""
    names = (own_name,) + FILTERS_ALL + tuple(CUSTOM_FILTERS)
    return {n: (lambda x, n=n: "SIB-FILTER<%s>(%s)" % (n, x)) for n in names}


def _sibling_ctor(suffix):
    """Everything through the constructor: templates= (new name + the judged instances' names), filters=."""
    tn = "stc" + suffix
    tpls = {n: mRNA(sequence=_sib_text(n), name=n) for n in (tn,) + tuple(REGISTRY)}
    return Ribosome(templates=tpls, filters=_sib_filters("sf" + suffix), silent=True)


def _sibling_mut(suffix):
    """No constructor argument but silent; everything through register_template / create_template afterwards."""
    r = Ribosome(silent=True)
    r.register_template(mRNA(sequence=_sib_text("str" + suffix), name="str" + suffix))
    r.create_template(_sib_text("stn" + suffix), "stn" + suffix)
    r.register_template(mRNA(sequence=_sib_text("sto" + suffix), name="not_this_name"), name="sto" + suffix)
    for n in REGISTRY:
        r.create_template(_sib_text(n), n)
    return r


def iso_group(env, strict):
    """-> (judged instance, siblings). Siblings are built before AND after the judged instance; one earlier sibling
    is extended once more after the judged instance exists."""
    g = _ISO.get((env, strict))
    if g is None:
        before = [_sibling_ctor("b"), _sibling_mut("b")]
        if env == "iso-default":
            with contextlib.redirect_stdout(io.StringIO()):
                r = Ribosome(strict=strict)
                for name, seq in REGISTRY.items():
                    r.register_template(mRNA(sequence=seq, name=name))
        elif env == "iso-bare":
            r = Ribosome(strict=strict, silent=True)
        else:
            r = Ribosome(templates={n: mRNA(sequence=q, name=n) for n, q in ALT_REGISTRY.items()},
                         filters=dict(CUSTOM_FILTERS), strict=strict, silent=True)
        after = [_sibling_ctor("a"), _sibling_mut("a")]
        before[1].create_template(_sib_text("stlb"), "stlb")
        g = _ISO[(env, strict)] = (r, before + after)
    return g


def build(env, strict):
    if env == "alt":
        with contextlib.redirect_stdout(io.StringIO()):
            return Ribosome(templates={n: mRNA(sequence=q, name=n) for n, q in ALT_REGISTRY.items()}, strict=strict)
    r = Ribosome(filters=dict(CUSTOM_FILTERS), strict=strict, silent=True)
    for name, seq in (REGISTRY if env == "rereg" else ENVS[env]["registry"]).items():
        r.register_template(mRNA(sequence=seq, name=name))
    if env == "rereg":
        r.create_template(ALT_REGISTRY["leaf"], "leaf")
        r.register_template(mRNA(sequence=ALT_REGISTRY["lopt"], name="not_this_name"), name="lopt")
    return r


def ribosome(strict, env="main"):
    r = _RIB.get((env, strict))
    if r is None:
        r = _RIB[(env, strict)] = build(env, strict)
    return r


def _translations(rib):
    """translate() executions so far as the instance itself reports them through the public get_statistics();
    None when that report is unavailable (the render is then counted once by the harness)."""
    try:
        n = rib.get_statistics()["translations_count"]
    except Exception:  # noqa: BLE001
        return None
    return n if isinstance(n, int) and not isinstance(n, bool) else None


def observe(tstr, ctx, strict=False, env="main", how="synthesize", count=False):
    """-> ('ok', sequence, warnings) | ('raise', ExcName, message)"""
    try:
        if how == "isolated":
            rib, sibs = iso_group(env, strict)
        else:
            rib, sibs = (build(env, strict) if how == "fresh" else ribosome(strict, env)), ()
    except Exception as e:  # noqa: BLE001  (a changed tree may fail here: judged, not a harness crash)
        return ("raise", type(e).__name__, "while building the instances: %s" % e)
    for sib in (sibs[0], sibs[-1]) if sibs else ():  # the same template was just rendered by other instances
        try:
            sib.synthesize(tstr, **ctx)
        except Exception:  # noqa: BLE001
            pass
    n0 = _translations(rib) if count else None
    try:
        if how in ("synthesize", "fresh", "isolated"):
            p = rib.synthesize(tstr, **ctx)
        elif how == "mrna":
            p = rib.translate(mRNA(sequence=tstr, name="an_object"), **ctx)
        elif how == "create":
            rib.create_template(tstr, ENTRY_NAME)
            p = rib.translate(ENTRY_NAME, **ctx)
        elif how == "included":  # the template is registered as a child and rendered through a parent's include
            rib.create_template(tstr, ADJ_CHILD)
            p = rib.synthesize(ADJ_PARENT, **ctx)
        elif how == "register-as":
            rib.register_template(mRNA(sequence=tstr, name="not_this_name"), name=ENTRY_NAME + "_2")
            p = rib.translate(ENTRY_NAME + "_2", **ctx)
        else:  # pragma: no cover
            raise AssertionError(how)
        got = ("ok", p.sequence, list(p.warnings))
    except Exception as e:  # noqa: BLE001
        got = ("raise", type(e).__name__, str(e))
    if count:
        RENDERS[0] += 1
        n1 = _translations(rib)
        RENDERS[1] += n1 - n0 if n0 is not None and n1 is not None and n1 >= n0 else 1
    return got


def _shadows_special(ctx):
    return any(isinstance(x, (list, tuple)) and any(isinstance(it, dict) and any(k in LOOP_LOCALS for k in it) for it in x)
               for x in ctx.values())


def ref_alts(tstr, ctx, env="main", extra=None):
    """-> (Ref, accepted outputs), or None when the documentation leaves the case unspecified.
    A dict item with a key named item/index/first/last: 'its keys are merged into the loop context' and '{{index}} is
    the position' are both documented; either reading is accepted (consistently within one render)."""
    e = ENVS[env]
    registry = dict(e["registry"], **extra) if extra else e["registry"]  # extra: templates registered for this case
    refs = []
    for dict_wins in ((True, False) if _shadows_special(ctx) else (True,)):
        r = Ref(registry, ctx, e["custom"], dict_wins)
        try:
            r.render(parse(tstr, e["custom"]), ctx, "top")
        except Unspecified:
            return None
        refs.append(r)
    alts = refs[0].alternatives()
    for r in refs[1:]:
        alts += tuple(a for a in r.alternatives() if a not in alts)
    return refs[0], alts


_BAD: dict = {}


def bad(tpl, ctx):
    """None = unspecified; False = implementation output is the reference expansion; else a description.
    Memoised (single segments x contexts recur in every attribution); rendering is a pure function of both."""
    key = (tpl, repr(ctx))
    if key not in _BAD:
        if len(_BAD) > 200000:
            _BAD.clear()
        _BAD[key] = _bad(tpl, ctx)
    return _BAD[key]


def _bad(tpl, ctx):
    tstr = emit(tpl)
    ra = ref_alts(tstr, ctx)
    if ra is None:
        return None
    got = observe(tstr, ctx)
    if got[0] == "raise":
        return ("raise", got[1], "raised %s: %s" % (got[1], got[2]))
    alts = ra[1]
    if got[1] in alts:
        return False
    return ("diff", None, "expected %r, observed %r" % (alts[0], got[1]))


def seg_kind(s):
    k = s[0]
    if k == "def":
        return "default-empty" if s[2] == "" else "default"
    if k == "filt":
        return "filter:" + s[2]
    if k == "if":
        return "if-else" if s[3] is not None else "if"
    if k == "each":
        return "each:" + "+".join("text" if a[0] == T else ATOM_LABEL.get(a[1], a[1]) for a in s[2])
    if k == "inc":
        return "include" if s[1] in REG_AST else "include-unknown"
    return {"text": "text", "var": "variable", "opt": "optional"}[k]


def channel(s, meta):
    k = s[0]
    if k == "def":
        return "default-literal" if meta["slot"] == "default" and s[2] == meta["payload"] else "defaulted"
    if k == "filt":
        return "custom-filter-output" if s[2] == meta.get("filter") else "filtered"
    if k == "each":
        a = s[2][0]
        if a[0] == V and a[1] in (".", "item"):
            return "loop-item"
        if a[0] == V and a[1] == "k":
            return "dict-field"
        return "simple"
    return {"var": "simple", "opt": "optional", "if": "simple", "inc": "include-output", "text": "template-text"}[k]


def neutral(x, meta):
    """The same template / context with the payload replaced by inert text (and the payload-returning custom filter
    by the custom filter that returns inert text)."""
    if isinstance(x, str):
        if x == meta["payload"]:
            return NEUTRAL
        return "cf_neutral" if x == meta.get("filter") else x
    if isinstance(x, (list, tuple)):
        return type(x)(neutral(y, meta) for y in x)
    if isinstance(x, dict):
        return {k: neutral(y, meta) for k, y in x.items()}
    return x


def attribute(tpl, ctx, meta):
    """Keys for a failing (tpl, ctx): every single segment / loop atom / included child is re-run alone.
    meta None (phase 1) or {'slot','construct','payload'} (phase 2)."""
    keys = []

    def unit(seg, label_prefix=""):
        b = bad((seg,), ctx)
        if not b:
            return False
        if meta is not None:
            tb = bad(neutral((seg,), meta), neutral(ctx, meta))
            if tb is False:
                keys.append(("reinterpreted:%s%s:%s" % (label_prefix, channel(seg, meta), meta["construct"]),
                             "segment %r: %s" % (emit_seg(seg), b[2])))
                return True
        if b[0] == "raise":
            keys.append(("raises:%s:%s" % (b[1], seg_kind(seg)), "segment %r: %s" % (emit_seg(seg), b[2])))
        else:
            keys.append(("output-mismatch:%s" % seg_kind(seg), "segment %r: %s" % (emit_seg(seg), b[2])))
        return True

    def walk(segs):
        for seg in segs:
            if seg[0] == "each" and len(seg[2]) > 1:
                hit = [unit(("each", seg[1], (a,))) for a in seg[2]]
                if not any(hit) and bad((seg,), ctx):
                    keys.append(("output-mismatch:each:cross-atom", "segment %r fails only as a whole" % emit_seg(seg)))
            elif seg[0] == "inc" and seg[1] in REG_AST:
                child = REG_AST[seg[1]]
                if bad(child, ctx):
                    n = len(keys)
                    walk(child)
                    if len(keys) == n:
                        keys.append(("output-mismatch:include-child:cross-segment", "child %r fails only as a whole" % seg[1]))
                else:
                    unit(seg)
            else:
                unit(seg)

    walk(tpl)
    if not keys:
        kinds = "+".join(sorted({seg_kind(s).split(":")[0] for s in tpl}))
        if meta is not None and bad(neutral(tpl, meta), neutral(ctx, meta)) is False:
            keys.append(("reinterpreted:cross-segment:%s" % meta["construct"], "no single segment reproduces it (%s)" % kinds))
        else:
            keys.append(("output-mismatch:cross-segment:%s" % kinds, "no single segment reproduces it"))
    out, seen = [], set()
    for k, w in keys:
        if k not in seen:
            seen.add(k)
            out.append((k, w))
    return out


VALUE_ONLY_NAMES = ("secret", "xs", "other")  # names that occur in payloads, never in a generated template


def _strict_raise_class(msg, ctx, meta):
    m = re.match(r"Missing required variable: (\S+)\Z", msg)
    name = m.group(1) if m else None
    if name is None or name in ctx:
        return "other"
    if meta is not None and name in VALUE_ONLY_NAMES:
        return "name-from-value:%s:%s" % (meta["slot"], meta["construct"])
    return "loop-local" if name in LOOP_LOCALS else "dict-field"


def judge(case):
    """case: {'phase': 1|2|'2u'|'strict'|'api', 'tpl', 'ctx', 'meta'?, 'strict'?} -> ('skip'|'ok', [(key, what)], outcome class)"""
    if case["phase"] == "api":
        return judge_api(case)
    if case["phase"] == "iso":
        return judge_iso(case)
    if case["phase"] == "adj":
        return judge_adj(case)
    tpl, ctx = case["tpl"], case["ctx"]
    tstr = emit(tpl)
    ra = ref_alts(tstr, ctx)
    if ra is None:
        return "skip", [], None
    ref, alts = ra
    viol = []
    desc = "template %r ctx %r: " % (tstr, ctx)
    meta = case.get("meta")
    if case["phase"] == "strict" or (case["phase"] == "2u" and case["strict"]):
        got = observe(tstr, ctx, strict=True, count=True)
        needed = sorted(set(ref.needed_unbound))
        if got[0] == "raise":
            if got[1] != "ValueError":
                viol.append(("strict-raises:%s" % got[1], desc + "strict mode raised %s: %s" % (got[1], got[2])))
            elif not static_unbound(parse(tstr), REGISTRY, ctx):
                viol.append(("strict-raises-bound:%s" % _strict_raise_class(got[2], ctx, meta), desc + "every variable the "
                             "template references is bound (loop-locals included) but strict mode raised %r" % got[2]))
            return "ok", viol, ("strict", "raise", bool(needed))
        if needed:
            viol.append(("strict-no-raise:%s" % needed[0][1], desc + "plain variable %r is needed and unbound but strict "
                         "mode returned %r" % (needed[0][0], got[1])))
        elif got[1] not in alts and got[1:2] != observe(tstr, ctx)[1:2]:
            viol.append(("strict-output-differs", desc + "strict output %r, expected %r" % (got[1], alts[0])))
        return "ok", viol, ("strict", "ok", len(got[2]) > 0)
    got = observe(tstr, ctx, count=True)
    if got[0] == "raise" or got[1] not in alts:
        for k, w in attribute(tpl, ctx, meta):
            viol.append((k, desc + w + " | whole template: " + ("raised %s" % got[2] if got[0] == "raise" else
                                                                 "expected %r, observed %r" % (alts[0], got[1]))))
        return "ok", viol, (case["phase"], got[0], "mismatch")
    for name, where in sorted(set(ref.needed_unbound)):
        if not any(re.search(r"(?<!\w)%s(?!\w)" % re.escape(name), w) for w in got[2]):
            viol.append(("missing-warning:%s" % where, desc + "plain variable %r is needed and unbound, warnings %r"
                         % (name, got[2])))
    if case["phase"] == "2u":
        for name in VALUE_ONLY_NAMES:
            if any(re.search(r"(?<!\w)%s(?!\w)" % name, w) for w in got[2]):
                viol.append(("warning-for-name-in-value:%s:%s" % (meta["slot"], meta["construct"]), desc + "%r occurs only "
                             "inside a value, yet the warnings name it: %r" % (name, got[2])))
                break
    return "ok", viol, (case["phase"], len(ref.needed_unbound) > 0, len(got[2]) > 0, alts.index(got[1]),
                        got[1] != tstr)


API_PATHS = (
    # label (names the public route), instance, how it is rendered
    ("translate-mRNA-object", "main", "mrna"),
    ("translate-by-name:create_template-same-name", "entry", "create"),
    ("translate-by-name:register_template-name-override", "entry", "register-as"),
    ("fresh-instance", "main", "fresh"),
    ("second-instance:constructor-templates", "alt", "synthesize"),
    ("first-instance-after-second", "main", "synthesize"),
    ("children-re-registered", "rereg", "synthesize"),
)


ISO_PATHS = (
    ("isolated:default-constructor", "iso-default", "isolated"),
    ("isolated:no-templates", "iso-bare", "isolated"),
    ("isolated:own-filters-and-templates", "iso-custom", "isolated"),
)


def judge_iso(case):
    """Isolation family: judged like an api case on every isolated instance; a violation is attributed by re-running
    every single segment alone on the same instance (the focus segment first)."""
    status, viol, oc = judge_api(case, ISO_PATHS, "", "iso")
    if not viol:
        return status, viol, oc
    tpl, pos = case["tpl"], case["pos"]
    out = []
    for key, what in viol:
        path = [p for p in ISO_PATHS if key.startswith(p[0] + ":")]

        def fails(seg):
            return bool(judge_api(dict(case, tpl=(seg,)), path, "", "iso")[1])

        if fails(tpl[pos]):
            tag = case["focus"]
        else:
            others = [s for i, s in enumerate(tpl) if i != pos and fails(s)]
            tag = "ordinary-segment:" + seg_kind(others[0]) if others else "cross-segment"
        out.append(("%s:%s" % (key, tag), what))
    return status, out, oc


def judge_api(case, paths=API_PATHS, tag="", family="api"):
    """Every other public route to a rendering, each against the reference for the instance it runs on.
    tag: appended to every key (isolation family: the syntactic role and origin of the sibling-only name)."""
    tpl, ctx, strict = case["tpl"], case["ctx"], case["strict"]
    tstr = emit(tpl)
    viol = []
    oc = []
    judged = 0
    for label, env, how in paths:
        ra = ref_alts(tstr, ctx, env)
        if ra is None:
            continue
        judged += 1
        ref, alts = ra
        e = ENVS[env]
        desc = "%s (strict=%s) template %r ctx %r: " % (label, strict, tstr, ctx)
        got = observe(tstr, ctx, strict, env, how, count=True)
        needed = sorted(set(ref.needed_unbound))
        if got[0] == "raise":
            if not strict or got[1] != "ValueError":
                viol.append(("%s:raises:%s%s" % (label, got[1], tag), desc + "raised %s: %s" % (got[1], got[2])))
            elif not static_unbound(parse(tstr, e["custom"]), e["registry"], ctx, custom=e["custom"]):
                viol.append(("%s:strict-raises-bound%s" % (label, tag), desc + "every referenced variable is bound but strict "
                             "mode raised %r" % got[2]))
        elif strict and needed:
            viol.append(("%s:strict-no-raise%s" % (label, tag), desc + "plain variable %r is needed and unbound but strict mode "
                         "returned %r" % (needed[0][0], got[1])))
        elif got[1] not in alts:
            viol.append(("%s:output-mismatch%s" % (label, tag), desc + "expected %r, observed %r" % (alts[0], got[1])))
        elif not strict:
            for name, where in needed:
                if not any(re.search(r"(?<!\w)%s(?!\w)" % re.escape(name), w) for w in got[2]):
                    viol.append(("%s:missing-warning%s" % (label, tag), desc + "plain variable %r is needed and unbound, warnings "
                                 "%r" % (name, got[2])))
                    break
        oc.append((how, got[0], got[0] == "ok" and got[1] != tstr))
    if not judged:
        return "skip", [], None
    return "ok", viol, (family, strict, tuple(oc))



# ----------------------------------------------------------------------------------------------
# adjacency family: fragments of a construct in ADJACENT emission sites
# ----------------------------------------------------------------------------------------------
# Every fragment is harmless alone (an opening delimiter, half a name, `|trim}}`, `/each}}`, one brace...); only the
# concatenation of what adjacent sites emit spells a construct. One left-to-right expansion emits them verbatim.
ADJ_CONSTRUCTS = tuple((c, p) for c, p in PAYLOADS if c in (
    "simple-variable", "optional-variable", "filtered-variable", "defaulted-variable", "include", "if-block",
    "each-block", "loop-dot", "loop-index"))
ADJ_CHILD = "adj_whole"
ADJ_PARENT = "<{{>%s}}>" % ADJ_CHILD
# emission sites. value sites: the fragment is DATA (bound value / loop item / dict field / value rendered by an
# included child); literal sites: the fragment is written in the template (default literal, literal text)
ADJ_LOOP_KINDS = ("loop-item", "loop-dot", "dict-field")  # may also emit several consecutive fragments (no separator)
ADJ_VALUE_KINDS = ("simple", "optional", "defaulted", "filtered", "custom-filter-output", "include-output") + ADJ_LOOP_KINDS
ADJ_LITERAL_KINDS = ("default-literal", "template-text")
ADJ_KINDS = ADJ_VALUE_KINDS + ADJ_LITERAL_KINDS
# one kind per rendering stage a value can be emitted by (loops, includes, filtered, defaulted, optional, plain)
ADJ_STAGE_KINDS = ("loop-item", "include-output", "filtered", "defaulted", "optional", "simple")
ADJ_CORE_KINDS = ("loop-item", "filtered", "simple")
# inside a block body the grammar allows text and plain variables only; in a loop body also the loop's own names
ADJ_IF_KINDS = ("simple", "template-text")
ADJ_BODY_KINDS = ("simple", "template-text", "body-item", "body-dot", "body-field-k", "body-field-j")
ADJ_WRAPPERS = ("top", "included", "if-body", "else-body", "loop-body")
ADJ_FLAGS = {"t": 1, "f": 0}
ENVS["adj"] = dict(registry=dict(REGISTRY, **{"fi%d" % i: "{{p%d}}" % i for i in range(3)}), custom=True)
_ADJ_PIECE = {"simple": "{{p%d}}", "optional": "{{?p%d}}", "defaulted": "{{p%d|dflt}}", "filtered": "{{p%d|trim}}",
              "custom-filter-output": "{{p%d|cf_id}}", "include-output": "{{>fi%d}}",
              "loop-item": "{{#each l%d}}{{item}}{{/each}}", "loop-dot": "{{#each l%d}}{{.}}{{/each}}",
              "dict-field": "{{#each l%d}}{{k}}{{/each}}"}
_ADJ_BODY_PIECE = {"body-item": "{{item}}", "body-dot": "{{.}}", "body-field-k": "{{k}}", "body-field-j": "{{j}}"}


def splits(s, n):
    """Every way to cut s into n non-empty consecutive fragments."""
    for cuts in itertools.combinations(range(1, len(s)), n - 1):
        b = (0,) + cuts + (len(s),)
        yield tuple(s[b[i] : b[i + 1]] for i in range(n))


def _body_ok(kinds):
    """One loop item feeds the whole body: it is either the fragment itself (one {{item}} / {{.}}) or a dict of
    fragments ({{k}}, {{j}}, each once)."""
    own = [k for k in kinds if k in _ADJ_BODY_PIECE]
    fields = [k for k in own if k.startswith("body-field")]
    if len(fields) != len(set(fields)):
        return False
    return len(own) == len(fields) or len(own) == 1


def adj_placements(n, level):
    """-> [(wrapper, ((site kind, number of consecutive fragments it emits), ...))] for n fragments."""
    thorough = level == "thorough"
    out = []
    singles = lambda kinds, m: [tuple((k, 1) for k in ks) for ks in itertools.product(kinds, repeat=m)]  # noqa: E731
    for wrapper in ("top", "included"):
        if n == 2:
            pl = singles(ADJ_KINDS, 2) + [((lk, 2),) for lk in ADJ_LOOP_KINDS]
        else:
            pl = [((lk, 3),) for lk in ADJ_LOOP_KINDS]
            if wrapper == "top" or thorough:
                pl += singles(ADJ_KINDS if thorough and wrapper == "top" else ADJ_STAGE_KINDS if thorough else ADJ_CORE_KINDS, 3)
                for lk in ADJ_LOOP_KINDS:
                    for k in (ADJ_KINDS if thorough else ADJ_STAGE_KINDS):
                        pl += [((lk, 2), (k, 1)), ((k, 1), (lk, 2))]
        out += [(wrapper, p) for p in pl]
    if n == 2 or thorough:
        for wrapper in ("if-body", "else-body"):
            out += [(wrapper, p) for p in singles(ADJ_IF_KINDS, n)]
        out += [("loop-body", p) for p in singles(ADJ_BODY_KINDS, n) if _body_ok([k for k, _ in p])]
    # a template made of literal sites only carries no data at all
    return [(w, p) for w, p in out if any(k not in ADJ_LITERAL_KINDS for k, _ in p)]


_BLOCK_TAG = re.compile(r"\{\{(#if\s+\w+|#each\s+\w+|#else|/if|/each)\}\}")


def _pure_text(s):
    """Plain template text: no construct, and no unmatched block tag either (a lone '{{#each xs}}' or '{{/if}}' in
    the template text is not a documented construct: what it pairs with is not specified)."""
    nodes = parse(s)
    return (not nodes or (len(nodes) == 1 and nodes[0][0] == "t")) and not _BLOCK_TAG.search(s)


def _merge_text(nodes):
    out = []
    for nd in nodes:
        if nd[0] == "t" and out and out[-1][0] == "t":
            out[-1] = ("t", out[-1][1] + nd[1])
        else:
            out.append(nd)
    return out


def adj_build(case, inert=False):
    """-> (template text, bindings, number of literal sites) or None when the template would not be the intended
    sequence of sites. inert: the same template / context with every fragment replaced by inert text.
    Literal fragments must be unambiguous template text: a default literal cannot contain '}' and must not open a tag
    that its own closing braces would complete ('{{zz|{{name}}' reads as a default literal or as text + a variable:
    an ambiguity of the template syntax, already represented by the literal-payload family); literal text must be
    plain text on its own (no unmatched block tag either) and delimiter-free between sites; and the whole template must tokenise into exactly its sites."""
    frs, wrapper = case["frags"], case["wrapper"]
    if inert:
        frs = tuple("N%d" % i for i in range(len(frs)))
    pieces, binds, nlit, pos, item = [], {}, 0, 0, {}
    for i, (kind, m) in enumerate(case["placement"]):
        grp = frs[pos : pos + m]
        pos += m
        f = grp[0]
        if kind == "template-text":
            if not inert and not _pure_text(f):
                return None
            pieces.append(f)
            nlit += 1
        elif kind == "default-literal":
            if not inert and ("}" in f or not _pure_text(f + "}}")):
                return None
            pieces.append("{{zz%d|%s}}" % (i, f))
            nlit += 1
        elif kind in _ADJ_BODY_PIECE:
            pieces.append(_ADJ_BODY_PIECE[kind])
            if kind.startswith("body-field"):
                item[kind[-1]] = f
            else:
                item = f
        else:
            pieces.append(_ADJ_PIECE[kind] % i)
            if kind in ADJ_LOOP_KINDS:
                binds["l%d" % i] = [{"k": x} for x in grp] if kind == "dict-field" else list(grp)
            else:
                binds["p%d" % i] = f
    assert pos == len(frs)
    inner = "".join(pieces)
    if wrapper == "if-body":
        tstr = "{{#if t}}%s{{/if}}" % inner
    elif wrapper == "else-body":
        tstr = "{{#if f}}no{{#else}}%s{{/if}}" % inner
    elif wrapper == "loop-body":
        tstr = "{{#each one}}%s{{/each}}" % inner
        binds["one"] = [item if item != {} else "x"]
    else:
        tstr = inner
    if nlit and not inert:  # compositional tokenisation: the template is the sequence of its sites
        want = _merge_text([nd for pc in pieces for nd in parse(pc)])
        # text segments of the grammar are delimiter-free: delimiters in the TEMPLATE only occur as parts of constructs
        # (a literal '{{' / '}}' glued to a site, as in '{{{{?p}}}}', is a nested tag, not a template of the grammar).
        # Fragments that are DATA (values, items, default literals) are not restricted by this.
        if any(nd[0] == "t" and ("{{" in nd[1] or "}}" in nd[1]) for nd in want):
            return None
        if wrapper == "if-body":
            want = [("if", "t", want, None)]
        elif wrapper == "else-body":
            want = [("if", "f", [("t", "no")], want)]
        elif wrapper == "loop-body":
            want = [("each", "one", want)]
        if parse(tstr) != want:
            return None
        # adjacent literal fragments must not spell an unmatched block tag together either: the template text has
        # exactly the block tags of its sites and wrapper (= those of the same template with inert fragments)
        if len(_BLOCK_TAG.findall(tstr)) != len(_BLOCK_TAG.findall(adj_build(case, inert=True)[0])):
            return None
    return tstr, binds, nlit


_ADJ_INERT: dict = {}


def _adj_run(tstr, ctx, strict, how):
    """-> (observation, accepted outputs) for one render of an adjacency template."""
    if how == "included":
        ra = ref_alts(ADJ_PARENT, ctx, "adj", {ADJ_CHILD: tstr})
    else:
        ra = ref_alts(tstr, ctx, "adj")
    return observe(tstr, ctx, strict, "adj", how, count=True), ra[1]


def _adj_inert(case, variant, strict, how):
    """The same template with inert fragments (memoised: it does not depend on the split)."""
    tstr, binds, _ = adj_build(case, inert=True)
    key = (tstr, repr(binds), variant, strict, how)
    got = _ADJ_INERT.get(key)
    if got is None:
        if len(_ADJ_INERT) > 50000:
            _ADJ_INERT.clear()
        n = RENDERS[:]
        obs, alts = _adj_run(tstr, dict(P2_BASE if variant == "bound" else {}, **binds, **ADJ_FLAGS), strict, how)
        RENDERS[:] = n  # baseline renders are not counted as compared renders
        sound = obs[0] == "ok" and obs[1] in alts
        got = _ADJ_INERT[key] = (sound, obs)
    return got


def adj_tstr(case):
    b = adj_build(case)
    return b[0] if b else ""


def judge_adj(case):
    """One adjacency template, names of the spelled construct bound and unbound, non-strict and strict."""
    b = adj_build(case)
    if b is None:
        return "skip", [], None
    tstr, binds, nlit = b
    construct = case["construct"]
    how = "included" if case["wrapper"] == "included" else "synthesize"
    sites = "+".join(k for k, _ in case["placement"])
    viol = []
    oc = []
    for variant in ("bound", "unbound"):  # the names the concatenation would refer to: bound / not bound
        ctx = dict(P2_BASE if variant == "bound" else {}, **binds, **ADJ_FLAGS)
        desc = "fragments %r of %r in adjacent sites %s (%s), template %r ctx %r: " % (
            list(case["frags"]), "".join(case["frags"]), sites, case["wrapper"], tstr, ctx)
        got, alts = _adj_run(tstr, ctx, False, how)
        if got[0] == "raise" or got[1] not in alts:
            obs = "raised %s: %s" % (got[1], got[2]) if got[0] == "raise" else "observed %r" % got[1]
            if _adj_inert(case, variant, False, how)[0]:
                viol.append(("reinterpreted:adjacent-fragments:%s" % construct, desc + "expected %r, %s (the same "
                             "template with inert fragments renders as the reference does)" % (alts[0], obs)))
            else:
                viol.append(("output-mismatch:adjacent-sites:%s:%s" % (case["wrapper"], sites), desc + "expected %r, %s "
                             "(also wrong with inert fragments)" % (alts[0], obs)))
            oc.append((variant, got[0], "mismatch"))
            continue
        oc.append((variant, len(got[2]) > 0))
        if nlit:
            # the template text itself changes with the fragment: only names that occur nowhere in it are judged
            for name in VALUE_ONLY_NAMES:
                if name not in tstr and any(re.search(r"(?<!\w)%s(?!\w)" % name, w) for w in got[2]):
                    viol.append(("spurious-warning:adjacent-fragments:%s" % construct, desc + "%r occurs in no template "
                                 "text, only in the concatenation of emitted fragments, yet the warnings name it: %r"
                                 % (name, got[2])))
                    break
            continue
        sound, base = _adj_inert(case, variant, False, how)
        if sound and sorted(got[2]) != sorted(base[2]):
            viol.append(("spurious-warning:adjacent-fragments:%s" % construct, desc + "warnings %r, but the same template "
                         "with inert fragments gives %r" % (got[2], base[2])))
        if variant == "unbound":
            sgot, salts = _adj_run(tstr, ctx, True, how)
            sbase = _adj_inert(case, variant, True, how)[1]
            if sgot[0] == "raise":
                if sbase[0] != "raise":
                    viol.append(("strict-raises-bound:name-from-value:adjacent-fragments:%s" % construct, desc + "strict mode "
                                 "raised %s: %s, but not for the same template with inert fragments" % (sgot[1], sgot[2])))
            elif sbase[0] == "ok" and sgot[1] not in salts:
                viol.append(("strict-output-differs:adjacent-fragments:%s" % construct, desc + "strict output %r, expected "
                             "%r" % (sgot[1], salts[0])))
            oc.append(("strict", sgot[0]))
    return "ok", viol, ("adj", case["wrapper"], nlit > 0, tuple(oc), True)


def adj_cases(item, cfg):
    cname, frs = item
    for wrapper, placement in adj_placements(len(frs), cfg["glevel"]):
        yield {"phase": "adj", "construct": cname, "frags": frs, "wrapper": wrapper, "placement": placement}


# ----------------------------------------------------------------------------------------------
# enumeration
# ----------------------------------------------------------------------------------------------
TIERS = {
    # plan = [(kind level, number of segments)], w_values for phase 1
    "quick": dict(plan=[("full", 0), ("full", 1), ("std", 2), ("core", 3)], dplan=[("std", 1), ("core", 2), ("core", 3)],
                  splan=[("shadow", 1), ("shadow", 2)], aplan=[("full", 1), ("std", 2)],
                  xplan=[("core", 1), ("core", 2)], glevel="quick",
                  w_values=(MISSING, "w")),
    "thorough": dict(plan=[("full", 0), ("full", 1), ("full", 2), ("std", 3), ("core", 4)],
                     dplan=[("full", 1), ("std", 2), ("std", 3), ("core", 4)],
                     splan=[("shadow", 1), ("shadow", 2), ("shadow", 3)], aplan=[("full", 1), ("std", 2), ("core", 3)],
                     xplan=[("core", 1), ("std", 2), ("core", 3)], glevel="thorough",
                     w_values=W_VALUES),
}
_REFS_W: dict = {}


def references_w(tstr):
    r = _REFS_W.get(tstr)
    if r is None:
        r = _REFS_W[tstr] = "w" in static_unbound(parse(tstr), REGISTRY, {})
    return r


def cases_for(tpl, cfg):
    """Every case of one template: phase 1, strict, phase 2 (value slots), phase 2u (payload names unbound)."""
    for v in V_VALUES:
        for w in cfg["w_values"]:
            yield {"phase": 1, "tpl": tpl, "ctx": mkctx(v, w)}
    for v in STRICT_V:
        for w in (MISSING, "w"):
            yield {"phase": "strict", "tpl": tpl, "ctx": mkctx(v, w)}
    uses_w = references_w(emit(tpl))
    for construct, p in PAYLOADS:
        for slot, v, w in (("v", p, "w"), ("v-item", [p, "b"], "w"), ("v-item", ["a", p], MISSING), ("v-field", [{"k": p}], "w")):
            yield {"phase": 2, "tpl": tpl, "ctx": mkctx(v, w, P2_BASE), "meta": {"slot": slot, "construct": construct, "payload": p}}
        if uses_w:
            for v in (STR, "", ["a", "b"], [{"k": "x"}]):
                yield {"phase": 2, "tpl": tpl, "ctx": mkctx(v, p, P2_BASE), "meta": {"slot": "w", "construct": construct, "payload": p}}
        else:
            yield None
        if construct in U_CONSTRUCTS:
            for slot, v in (("v", p), ("v-item", [p, "b"]), ("v-field", [{"k": p}])):
                for strict in (False, True):
                    yield {"phase": "2u", "tpl": tpl, "ctx": mkctx(v, "w"), "strict": strict,
                           "meta": {"slot": slot, "construct": construct, "payload": p}}


def literal_templates(dplan):
    """Templates in which exactly one position carries a payload through the TEMPLATE: the default literal of a
    defaulted variable, literal text (private-use characters only; anything else would be template syntax), or a
    filtered variable whose custom filter returns the payload. -> (tpl, slot, construct, payload, filter name|None)"""
    carriers = [("default", c, lit, ("def", "v", lit), None) for c, lit in DEFAULT_PAYLOADS]
    carriers += [("text", c, lit, (T, lit), None) for c, lit in TEXT_PAYLOADS]
    carriers += [("filter-output", c, lit, ("filt", "v", "cf%d" % i), "cf%d" % i) for i, (c, lit) in enumerate(FILTER_PAYLOADS)]
    seen, out = set(), []
    for level, n in dplan:
        kinds = seg_kinds(level)
        for pos in range(n):
            for slot, construct, lit, seg, fname in carriers:
                for rest in itertools.product(kinds, repeat=n - 1):
                    rest = number_text(rest)
                    tpl = rest[:pos] + (seg,) + rest[pos:]
                    s = emit(tpl)
                    if s not in seen:
                        seen.add(s)
                        out.append((tpl, slot, construct, lit, fname))
    return out


def literal_cases(item):
    tpl, slot, construct, lit, fname = item
    meta = {"slot": slot, "construct": construct, "payload": lit}
    if fname:
        meta["filter"] = fname
    inert = construct in ("plain-text", "empty-string")  # nothing to re-interpret: judged like phase 1
    for v in (MISSING, STR, ["a", "b"]):
        if inert:
            yield {"phase": 1, "tpl": tpl, "ctx": mkctx(v, "w", P2_BASE)}
        else:
            yield {"phase": 2, "tpl": tpl, "ctx": mkctx(v, "w", P2_BASE), "meta": meta}


def shadow_cases(tpl):
    for base in ({}, OUTER_SPECIALS):
        for v in SHADOW_V:
            for phase in (1, "strict"):
                yield {"phase": phase, "tpl": tpl, "ctx": mkctx(v, "w", base), "family": "shadow"}


def api_cases(tpl):
    for v in API_V:
        for w in (MISSING, "w"):
            for strict in (False, True):
                yield {"phase": "api", "tpl": tpl, "ctx": mkctx(v, w), "strict": strict}


def iso_focus_segments():
    """(segment, key tag): every name that only ANOTHER instance was given, in every syntactic role in which a leaked
    table entry could be picked up (word after '|', include target, plain / optional variable), and every name that a
    sibling re-defined (built-in filters, the judged instance's own templates) in its proper role."""
    out = []
    foreign = [(n, "filter-name:" + o) for n, o in SIB_FILTER_NAMES.items()]
    foreign += [(n, "filter-name:constructor-filters:harness-main-instance") for n in ("cf0", "cf_neutral")]
    foreign += [(n, "template-name:" + o) for n, o in SIB_TEMPLATE_NAMES.items()]
    for n, o in foreign:
        for role, seg in (("default-word", ("def", "v", n)), ("include-target", ("inc", n)), ("variable", (V, n)),
                          ("optional-variable", ("opt", n))):
            out.append((seg, "%s-as-%s" % (o, role)))
    out += [(("filt", "v", f), "filter-name:sibling-redefines-built-in") for f in FILTERS_ALL]
    out += [(("inc", n), "template-name:sibling-redefines-own-template") for n in REG_AST]
    return out


def iso_templates(xplan):
    """One focus segment at every position among n-1 ordinary segments. -> (tpl, position, key tag)"""
    seen, out = set(), []
    for level, n in xplan:
        kinds = seg_kinds(level)
        for pos in range(n):
            for seg, tag in iso_focus_segments():
                for rest in itertools.product(kinds, repeat=n - 1):
                    rest = number_text(rest)
                    tpl = rest[:pos] + (seg,) + rest[pos:]
                    s = emit(tpl)
                    if s not in seen:
                        seen.add(s)
                        out.append((tpl, pos, tag))
    return out


def iso_cases(item):
    tpl, pos, tag = item
    for v in STRICT_V:
        for w in (MISSING, "w"):
            for strict in (False, True):
                yield {"phase": "iso", "tpl": tpl, "ctx": mkctx(v, w), "strict": strict, "pos": pos, "focus": tag}


FAMILIES = {"x": lambda it, cfg: iso_cases(it), "t": cases_for, "d": lambda it, cfg: literal_cases(it), "s": lambda it, cfg: shadow_cases(it),
            "a": lambda it, cfg: api_cases(it), "g": adj_cases}


def _case_order(case):
    if case["phase"] == "adj":
        t = adj_tstr(case)
        return (len(t), t, "adj", len(repr(case["frags"])), repr((case["frags"], case["placement"])), False)
    t = emit(case["tpl"])
    return (len(t), t, str(case["phase"]), len(repr(case["ctx"])), repr(case["ctx"]), bool(case.get("strict")))


def _work(arg):
    kind, items, cfg = arg
    from collections import Counter
    st = Counter()
    viols = {}
    outcomes = set()
    samples = []
    RENDERS[0] = RENDERS[1] = 0
    for it in items:
        for case in FAMILIES[kind](it, cfg):
            if case is None:
                st["phase2_slot_w_not_referenced_skipped"] += 4
                continue
            status, vs, oc = judge(case)
            ph = "phase%s" % case["phase"] if case["phase"] not in ("strict", "api", "iso", "adj") else case["phase"]
            if status == "skip":
                st[ph + "_unspecified_skipped"] += 1
                continue
            st[ph + "_cases"] += 1
            if case.get("family"):
                st["of_which_%s_family" % case["family"]] += 1
            if oc is not None:
                outcomes.add(oc)
                if oc[-1] is True or oc[0] == "strict" or (oc[0] in ("api", "iso") and any(x[2] or x[1] == "raise" for x in oc[2])):
                    st["nontrivial_cases"] += 1
            if case["phase"] == 1 and len(case["tpl"]) <= 1:
                outcomes.add(("out", observe(emit(case["tpl"]), case["ctx"])[1]))
            for k, w in vs:
                cur = viols.get(k)
                if cur is None:
                    viols[k] = [1, w, case]
                else:
                    cur[0] += 1
                    if _case_order(case) < _case_order(cur[2]):
                        cur[1], cur[2] = w, case
            if not vs and len(samples) < 2 and case["phase"] != "adj" and len(case["tpl"]) >= 2:
                samples.append({"template": emit(case["tpl"]), "ctx": case["ctx"], "phase": case["phase"]})
    st["impl_renders"] = RENDERS[0]
    st["impl_translate_calls"] = RENDERS[1]
    return st, viols, outcomes, samples


def run(ctx):
    from collections import Counter
    cfg = TIERS[ctx.tier]
    tpls = common.rotate(templates(cfg["plan"]), ctx.seed)
    dtpls = common.rotate(literal_templates(cfg["dplan"]), ctx.seed)
    stpls = common.rotate(templates(cfg["splan"]), ctx.seed)
    atpls = common.rotate(templates(cfg["aplan"]), ctx.seed)
    xtpls = common.rotate(iso_templates(cfg["xplan"]), ctx.seed)
    gitems = common.rotate([(c, frs) for c, p in ADJ_CONSTRUCTS for m in (2, 3) for frs in splits(p, m)], ctx.seed)
    n = common.NPROC * 6
    jobs = [(fam, ch, cfg) for fam, seq in (("t", tpls), ("d", dtpls), ("s", stpls), ("a", atpls), ("x", xtpls), ("g", gitems))
            for ch in common.chunked(seq, n)]
    st = Counter()
    viols = {}
    samples = []
    for s, v, oc, sm in common.pmap(_work, jobs):
        st.update(s)
        ctx.outcomes |= oc
        samples += sm
        for k, (cnt, w, case) in v.items():
            cur = viols.get(k)
            if cur is None:
                viols[k] = [cnt, w, case]
            else:
                cur[0] += cnt
                if _case_order(case) < _case_order(cur[2]):
                    cur[1], cur[2] = w, case
    for k in sorted(viols):
        cnt, w, case = viols[k]
        for _ in range(cnt):
            ctx.report(k, w, case)
    for s in sorted(samples, key=lambda x: (len(x["template"]), x["template"], repr(x["ctx"])))[:6]:
        ctx.sample(s)
    ctx.stats.update(st)
    cases = sum(v for k, v in st.items() if k.endswith("_cases") and k != "nontrivial_cases")
    ctx.coverage.update(
        states=cases,
        transitions=st["impl_translate_calls"],
        traces_validated_against_impl=st["impl_renders"],
        evaluations=cases,
        distinct_nontrivial=st["nontrivial_cases"],
        templates=len(tpls),
        literal_payload_templates=len(dtpls),
        shadow_templates=len(stpls),
        api_templates=len(atpls),
        isolation_templates=len(xtpls),
        adjacency_fragment_tuples=len(gitems),
        adjacency_constructs=[p for _, p in ADJ_CONSTRUCTS],
        adjacency_site_kinds=list(ADJ_KINDS),
        adjacency_placements={"%d-fragments" % m: len(adj_placements(m, cfg["glevel"])) for m in (2, 3)},
        plan=[list(p) for p in cfg["plan"]],
        literal_plan=[list(p) for p in cfg["dplan"]],
        shadow_plan=[list(p) for p in cfg["splan"]],
        api_plan=[list(p) for p in cfg["aplan"]],
        isolation_plan=[list(p) for p in cfg["xplan"]],
        isolation_paths=[p[0] for p in ISO_PATHS],
        isolation_focus_segments=len(iso_focus_segments()),
        api_paths=[p[0] for p in API_PATHS],
        segment_kinds={lv: len(seg_kinds(lv)) for lv in ("core", "std", "full", "shadow")},
        payloads=[p for _, p in PAYLOADS],
        custom_filters=len(CUSTOM_FILTERS),
        rule="every template = sequence of n segment kinds (plan: [kind level, n]; kinds = text, {{v}}, {{?v}}, defaults, "
        "filters, if/else, each with loop bodies, includes up to 3 levels/unknown) x every context (v over 13 values x w) "
        "non-strict, x value classes in strict mode, x every (payload, slot) in phase 2 and, with the payload's names "
        "unbound, in phase 2u (strict and non-strict); literal plan: one position carries a payload as default literal / "
        "literal text / custom-filter result; shadow plan: names of loop specials and dict fields inside and outside "
        "loops x dict items shadowing them x outer bindings of the same names, strict and non-strict; api plan: every "
        "template x context x strict flag through every api path (each on its own instance, judged against the "
        "reference for that instance's registry and filters); isolation plan: one focus segment (a name that only a sibling "
        "instance was given through filters= / templates= / register_template / create_template, used as default word, "
        "include target, plain or optional variable; or a built-in filter / own template name that a sibling re-defined) "
        "at every position among n-1 ordinary segments x context x strict flag on three instances (default constructor, "
        "no templates, own filters and templates), each built between siblings constructed before and after it and "
        "rendered right after two siblings rendered the same template, judged against the reference parametrised by the "
        "judged instance's OWN registry and filters; adjacency plan: every split of every construct string into 2 and 3 "
        "non-empty fragments x every placement of the fragments, in order, into adjacent emission sites (2 fragments: "
        "every ordered pair of the 11 site kinds and 2 consecutive items of each loop kind, at top level and inside an "
        "included child, pairs of the kinds a block body may contain inside if / else / loop bodies; 3 fragments: 3 "
        "consecutive loop items, triples over one kind per early/middle/late rendering stage, a 2-item loop next to one "
        "site per rendering stage [thorough: triples over all kinds, also in block bodies]) x the spelled names bound / "
        "unbound, non-strict (+ strict when no fragment is template text); placements whose literal fragments are not "
        "unambiguous plain template text are not generated (counted as unspecified). states = distinct (template, context, mode) cases "
        "rendered by the real Ribosome and compared with the reference (an api / isolation case = all its paths); "
        "traces_validated_against_impl = compared renders; transitions = "
        "translate() executions of the real Ribosome caused by the compared renders (top level + include expansions, read "
        "from its public get_statistics() report; attribution re-runs of single segments are not counted); non-trivial = output differs from the template "
        "text (something was expanded) or strict mode",
        exhaustive=True,
    )
    ctx.assumptions += [
        "blocks are non-nested, loop bodies and if bodies contain only text and plain variables (the quantifier's grammar)",
        "each over a non-list value, `length` of a value without len(), and the text emitted for an unbound plain/"
        "filtered variable (raw placeholder or empty both accepted) are not fixed by the documentation: not judged",
        "strict mode is judged over value classes of v (missing, str, int, list, empty list, list of dicts) x w bound/missing",
        "variable names v, w, k, secret, xs (+ item/index/first/last as outer names in the shadow family); registries of "
        "6 acyclic templates",
        "a dict item's key named item/index/first/last: both 'the dict key is seen' and 'the loop special is seen' are "
        "accepted (consistently within one render); a dict key named like an OUTER variable must win inside the loop body",
        "the text returned by a custom filter is the filtered variable's value (emitted verbatim); custom filters that "
        "raise or return non-strings, and re-defining a built-in filter name ON the judged instance, are not judged",
        "translate(<name only a sibling instance registered>) raising is not part of the statement: not judged; assigning "
        "into the public attributes .filters / .templates directly is not a documented extension point: not explored",
        "adjacency family: a fragment written as a default literal may not contain '}' nor open a tag that the default's "
        "own closing braces would complete, a fragment written as literal text must be plain text on its own without any "
        "unmatched block tag ({{#each xs}} with no {{/each}} is not a documented construct), and the "
        "template must tokenise into exactly its sites; otherwise the text is a different (or ambiguous) template",
        "adjacency family: literal template TEXT is delimiter-free (no '{{' / '}}' in the text between sites), as in the "
        "quantifier's grammar where delimiters occur only as parts of constructs; nested literal delimiters in template text "
        "are outside the quantifier and not judged. Documented, not hidden: on the current tree such a template re-reads a "
        "brace-free value emitted by an earlier pass, e.g. synthesize('{{{{?p}}}}', p='secret', secret='S3CR3T') gives "
        "'S3CR3T' (one left-to-right expansion would give '{{secret}}'), likewise '{{{{>child}}}}' / '{{{{p|trim}}}}' / a "
        "loop between literal '{{' and '}}'; data fragments (values, items, defaults) stay unrestricted",
    ]


def replay(ctx, case):
    case = dict(case)
    if case["phase"] == "adj":
        case["frags"], case["placement"] = _tuplify(case["frags"]), _tuplify(case["placement"])
        return judge(case)[1]
    case["tpl"] = _tuplify(case["tpl"])
    case["ctx"] = _listify(case["ctx"])
    if case.get("meta"):
        case["meta"] = dict(case["meta"])
    status, vs, _ = judge(case)
    return vs


def _tuplify(x):
    return tuple(_tuplify(y) for y in x) if isinstance(x, (list, tuple)) else x


def _listify(x):
    """Context values: JSON round trip gives tuples; the library distinguishes list from tuple only in str()."""
    if isinstance(x, (list, tuple)):
        return [_listify(y) for y in x]
    if isinstance(x, dict):
        return {k: _listify(v) for k, v in x.items()}
    return x
