"""C10 — prompt-injection gates block every signature hit, stay blocked, and never crash.

Engine D (bounded-exhaustive inputs): witness strings are derived automatically from every
built-in / generated custom / learned / imported signature of both gates by walking the `re`
parse tree (every alternation branch, minimal and 2x repetitions), then perturbed (case,
embedding in benign text, control characters, lone surrogates, 100k+ lengths) and run through
fresh gates for every threshold x installation channel x validator set. Hostile structural
inputs (deep JSON, 5000-digit numbers, ...) go through every shipped validator.
Every D evaluation is repeated (two thresholds per gate) with all remaining constructor / per-call
options at a non-default value: console output on, callback installed, a non-binding rate limit,
inflammation decay 0, a non-default Signal envelope. Validator options include boundary values
(max_depth 0/1/huge, max_size 0, max_length 0/1, min > max) and installation through add_validator().
Engine A (explicit-state BFS): membrane histories over filter / learn (same text with either
regex-ness, texts differing by case only) / forget / add_signature / set_threshold / export-import /
clear_audit_log / clock advance under a virtual clock; the role of a call (scan decision vs
replay-memory / rate-limit answer) is derived from the history of public calls, not from the result.
Innate-gate histories over check / add_pattern / add_validator / reset_inflammation / clock advance on
two gates: an input the rule set blocks is blocked after every history, the second gate never sees
the first one's rules. A grown class-level signature table (gates sharing their store) is reported.
The gates are driven and observed through their public API only. Where the explorers need the whole internal
state (copying a state, canonical key) they walk vars(obj) generically (section 6b): no private attribute, method
or helper of the library is named anywhere; volatile fields (audit trail, call counters) are located by behaviour
on a probe object. The virtual clock covers module-level, aliased and function-level imports of time / datetime.

Reference matcher: an independent backtracking matcher over the sre parse tree with its own
case folding (cross-checked against `re.compile(p, re.I).search` on every evaluated pair; a
disagreement is a harness error, never a verdict). Reference JSON checker: iterative pushdown
recogniser (no json module). Nothing of the implementation's matching code is imported.
"""
from __future__ import annotations

import contextlib
import copy
import re
import sys
from re import _parser as sre

from mc import common, explore, vclock

import operon_ai.organelles.membrane as membrane_mod
import operon_ai.surveillance.innate as innate_mod
from operon_ai.core.types import Signal, SignalStrength, SignalType
from operon_ai.organelles.membrane import Membrane, ThreatLevel, ThreatSignature
from operon_ai.surveillance.innate import (
    CharacterSetValidator,
    InnateImmunity,
    JSONValidator,
    LengthValidator,
    PAMPCategory,
    TLRPattern,
)

def install_clock(modules):
    """Virtual clock for the library modules, wherever and under whatever name they import time / datetime:
    (1) vclock.install_global: module-level `datetime` class / `time` module under their usual names;
    (2) every other module global that IS the real time module, the real datetime module / class or one of
        time.time / monotonic / perf_counter / sleep (aliased imports, `from time import time`);
    (3) function-level `import time` / `from datetime import datetime` executed by code of these modules
        (an `__import__` wrapper that looks at the importing module's globals; imports of everybody else
        are untouched). Names that do not exist are simply not rebound - nothing here requires a particular
        import style."""
    import builtins
    import datetime as real_dt
    import time as real_time
    import types

    sw = vclock.install_global(modules)
    ftime = sw.fake_time()
    fdt_mod = types.ModuleType("datetime")
    fdt_mod.__dict__.update({k: v for k, v in vars(real_dt).items() if not k.startswith("__")})
    # reuse the class vclock bound (if it bound one) so that there is one virtual datetime class per process
    bound = [vars(m).get("datetime") for m in modules]
    fdt_cls = next((b for b in bound if isinstance(b, type) and issubclass(b, real_dt.datetime)
                    and b is not real_dt.datetime), None) or sw.fake_datetime()
    fdt_mod.datetime = fdt_cls
    swap = {id(real_time): ftime, id(real_dt): fdt_mod, id(real_dt.datetime): fdt_cls}
    for fn in ("time", "monotonic", "perf_counter", "sleep"):
        swap[id(getattr(real_time, fn))] = getattr(ftime, fn)
    names = set()
    for m in modules:
        names.add(m.__name__)
        for k, v in list(vars(m).items()):
            if not k.startswith("__") and id(v) in swap:
                setattr(m, k, swap[id(v)])
    real_import = builtins.__import__

    def virtual_import(name, globals=None, locals=None, fromlist=(), level=0):  # noqa: A002
        if level == 0 and name in ("time", "datetime") and globals is not None \
                and globals.get("__name__") in names:
            return ftime if name == "time" else fdt_mod
        return real_import(name, globals, locals, fromlist, level)

    builtins.__import__ = virtual_import
    return sw


install_clock([membrane_mod, innate_mod])

# ======================================================================================
# 1. Reference: case folding restricted to characters with single-character round-tripping maps
# ======================================================================================

# non-ASCII characters the input builders may use (all have simple 1:1 case maps or none);
# characters such as U+017F, U+212A, U+0130 whose folding differs between str.lower() and
# re.IGNORECASE are "don't care" and never enumerated.
SAFE_NONASCII = set("\u00e9\u00c9\u00fc\u00dc\u65e5\u2028\x85")


def _fold(c):
    return c.lower()


def char_ok(c):
    o = ord(c)
    return o < 128 or c in SAFE_NONASCII or 0xD800 <= o <= 0xDFFF


def assert_safe_text(s):
    for c in s:
        if not char_ok(c):
            raise common.HarnessError(f"input builder produced a don't-care character U+{ord(c):04X}")


def is_word(c):
    return c.isalnum() or c == "_"


def _cat(cat, c):
    if cat == sre.CATEGORY_DIGIT:
        return c.isdecimal()
    if cat == sre.CATEGORY_NOT_DIGIT:
        return not c.isdecimal()
    if cat == sre.CATEGORY_SPACE:
        return c.isspace()
    if cat == sre.CATEGORY_NOT_SPACE:
        return not c.isspace()
    if cat == sre.CATEGORY_WORD:
        return is_word(c)
    if cat == sre.CATEGORY_NOT_WORD:
        return not is_word(c)
    raise Unsupported(f"category {cat}")


class Unsupported(Exception):
    pass


def _in_set(items, c):
    neg = False
    hit = False
    alts = {c, c.lower(), c.upper()}
    for op, av in items:
        if op == sre.NEGATE:
            neg = True
        elif op == sre.LITERAL:
            if any(ord(a) == av for a in alts if len(a) == 1):
                hit = True
        elif op == sre.RANGE:
            if any(av[0] <= ord(a) <= av[1] for a in alts if len(a) == 1):
                hit = True
        elif op == sre.CATEGORY:
            if _cat(av, c):
                hit = True
        else:
            raise Unsupported(f"set item {op}")
    return hit != neg


def _single(node):
    """single-character test for a node, or None if the node is not one character wide"""
    op, av = node
    if op == sre.LITERAL:
        ch = chr(av)
        f = _fold(ch)
        return lambda c: c == ch or _fold(c) == f
    if op == sre.NOT_LITERAL:
        ch = chr(av)
        f = _fold(ch)
        return lambda c: not (c == ch or _fold(c) == f)
    if op == sre.ANY:
        return lambda c: c != "\n"
    if op == sre.IN:
        items = list(av)
        return lambda c: _in_set(items, c)
    return None


class RefRegex:
    """Backtracking matcher over the sre parse tree; IGNORECASE semantics for safe characters."""

    def __init__(self, pattern):
        self.pattern = pattern
        tree = sre.parse(pattern)
        if tree.state.flags & ~(re.UNICODE):
            raise Unsupported("inline flags")
        self.seq = self._prep(list(tree))
        # set of folded first characters (None = unknown) to skip impossible start positions
        self.first = self._first_set(list(tree))

    @classmethod
    def _first_set(cls, nodes):
        for op, av in nodes:
            if op == sre.AT:
                continue
            if op == sre.LITERAL:
                f = chr(av).lower()
                return {f} if len(f) == 1 else None
            if op == sre.SUBPATTERN:
                return cls._first_set(list(av[3]))
            if op == sre.BRANCH:
                out = set()
                for b in av[1]:
                    fs = cls._first_set(list(b))
                    if fs is None:
                        return None
                    out |= fs
                return out
            return None
        return None

    def _prep(self, nodes):
        out = []
        for op, av in nodes:
            if op in (sre.LITERAL, sre.NOT_LITERAL, sre.ANY, sre.IN):
                out.append(("1", _single((op, av))))
            elif op == sre.AT:
                out.append(("at", av))
            elif op == sre.BRANCH:
                out.append(("br", [self._prep(list(b)) for b in av[1]]))
            elif op == sre.SUBPATTERN:
                if av[1] or av[2]:
                    raise Unsupported("group flags")
                out.append(("grp", self._prep(list(av[3]))))
            elif op in (sre.MAX_REPEAT, sre.MIN_REPEAT):
                lo, hi, sub = av
                sub = list(sub)
                one = _single(sub[0]) if len(sub) == 1 else None
                hi = None if hi == sre.MAXREPEAT else hi
                if one is not None:
                    out.append(("rep1", lo, hi, one, op == sre.MAX_REPEAT))
                else:
                    out.append(("rep", lo, hi, self._prep(sub), op == sre.MAX_REPEAT))
            else:
                raise Unsupported(str(op))
        return out

    # continuation-passing matcher; k(pos) -> bool
    def _m(self, seq, i, s, pos, k):
        n = len(s)
        while i < len(seq):
            node = seq[i]
            t = node[0]
            if t == "1":
                if pos < n and node[1](s[pos]):
                    pos += 1
                    i += 1
                    continue
                return False
            if t == "at":
                if not self._at(node[1], s, pos):
                    return False
                i += 1
                continue
            if t == "grp":
                return self._m(node[1], 0, s, pos, lambda p, i=i: self._m(seq, i + 1, s, p, k))
            if t == "br":
                for b in node[1]:
                    if self._m(b, 0, s, pos, lambda p, i=i: self._m(seq, i + 1, s, p, k)):
                        return True
                return False
            if t == "rep1":
                _, lo, hi, one, greedy = node
                run = 0
                lim = n - pos if hi is None else min(hi, n - pos)
                while run < lim and one(s[pos + run]):
                    run += 1
                if run < lo:
                    return False
                counts = range(run, lo - 1, -1) if greedy else range(lo, run + 1)
                for c in counts:
                    if self._m(seq, i + 1, s, pos + c, k):
                        return True
                return False
            if t == "rep":
                _, lo, hi, sub, greedy = node
                return self._rep(sub, lo, hi, greedy, 0, s, pos, lambda p, i=i: self._m(seq, i + 1, s, p, k))
            raise AssertionError(t)
        return k(pos)

    def _rep(self, sub, lo, hi, greedy, count, s, pos, k):
        def more():
            if hi is not None and count >= hi:
                return False
            return self._m(sub, 0, s, pos,
                           lambda p: (p != pos or count < lo) and self._rep(sub, lo, hi, greedy, count + 1, s, p, k))

        if count < lo:
            return more()
        if greedy:
            return more() or k(pos)
        return k(pos) or more()

    @staticmethod
    def _at(code, s, pos):
        n = len(s)
        if code in (sre.AT_BEGINNING, sre.AT_BEGINNING_STRING):
            return pos == 0
        if code == sre.AT_END:
            return pos == n or (pos == n - 1 and s[pos] == "\n")
        if code == sre.AT_END_STRING:
            return pos == n
        if code in (sre.AT_BOUNDARY, sre.AT_NON_BOUNDARY):
            a = pos > 0 and is_word(s[pos - 1])
            b = pos < n and is_word(s[pos])
            return (a != b) == (code == sre.AT_BOUNDARY)
        raise Unsupported(f"at {code}")

    def search(self, s):
        if self.first is not None:
            low = folded(s)
            if len(low) == len(s):  # true for safe text
                done = lambda _p: True  # noqa: E731
                if len(self.first) == 1:
                    f = next(iter(self.first))
                    p = low.find(f)
                    while p != -1:
                        if self._m(self.seq, 0, s, p, done):
                            return True
                        p = low.find(f, p + 1)
                    return False
                fs = self.first
                for p, ch in enumerate(low):
                    if ch in fs and self._m(self.seq, 0, s, p, done):
                        return True
                return False
        for p in range(len(s) + 1):
            if self._m(self.seq, 0, s, p, lambda _p: True):
                return True
        return False


_FOLDED = [None, None]


def folded(s):
    """character-wise folded copy of the text (one-entry cache: callers loop signatures per text)"""
    if _FOLDED[0] is not s:
        _FOLDED[0] = s
        _FOLDED[1] = "".join([_fold(c) for c in s])
    return _FOLDED[1]


def ref_substring(pattern, content):
    """case-insensitive containment by character-wise folding (no str.lower() on whole strings)"""
    pf = "".join([_fold(c) for c in pattern])
    low = folded(content)
    if len(pf) != len(pattern) or len(low) != len(content):
        raise common.HarnessError("don't-care character (expanding case map) reached the reference")
    m = len(pf)
    if m == 0:
        return True
    i = low.find(pf[0])
    while i != -1:
        j = 1
        while j < m and i + j < len(low) and low[i + j] == pf[j]:
            j += 1
        if j == m:
            return True
        i = low.find(pf[0], i + 1)
    return False


class RefSig:
    """Reference view of one signature: (pattern, is_regex, level) + independent matcher."""
    _cache: dict = {}

    def __init__(self, pattern, is_regex, level):
        self.pattern, self.is_regex, self.level = pattern, bool(is_regex), level
        self.ident = (pattern, self.is_regex, level)
        self.fallback = False
        self._re = None
        self._lib = None
        if self.is_regex:
            self._lib = re.compile(pattern, re.IGNORECASE)
            try:
                self._re = RefRegex(pattern)
            except Unsupported:
                self.fallback = True

    def matches(self, content):
        key = (self.pattern, self.is_regex, content)
        got = RefSig._cache.get(key)
        if got is not None:
            return got
        if self.is_regex:
            lib = bool(self._lib.search(content))
            if self._re is not None:
                try:
                    mine = self._re.search(content)
                except (Unsupported, RecursionError):
                    mine = lib
                    self.fallback = True
                if mine != lib:
                    raise common.HarnessError(
                        f"reference matcher disagrees with re.I for {self.pattern!r} on {content[:80]!r}: {mine} vs {lib}")
            else:
                mine = lib
        else:
            mine = ref_substring(self.pattern, content)
            # cross-check on pure-ASCII text where casefolded containment is unambiguous
            if content.isascii() and self.pattern.isascii() and len(content) < 2000:
                if mine != (self.pattern.casefold() in content.casefold()):
                    raise common.HarnessError(f"substring reference inconsistent for {self.pattern!r}")
        if len(RefSig._cache) > 400_000:
            RefSig._cache.clear()
        RefSig._cache[key] = mine
        return mine


# ======================================================================================
# 2. Witness derivation from the parse tree
# ======================================================================================

WITNESS_CAP = 24


def _cat_witness(cat):
    return {sre.CATEGORY_DIGIT: "7", sre.CATEGORY_NOT_DIGIT: "q", sre.CATEGORY_SPACE: " ",
            sre.CATEGORY_NOT_SPACE: "q", sre.CATEGORY_WORD: "q", sre.CATEGORY_NOT_WORD: "-"}.get(cat)


def _node_alts(node):
    """list of strings this node can produce (each alternation branch; min and 2x repetitions)"""
    op, av = node
    if op == sre.LITERAL:
        return [chr(av)]
    if op == sre.NOT_LITERAL:
        return ["q" if chr(av).lower() != "q" else "z"]
    if op == sre.ANY:
        return ["x"]
    if op == sre.AT:
        return [""]
    if op == sre.IN:
        neg = any(o == sre.NEGATE for o, _ in av)
        if neg:
            for cand in "q7 -_Z":
                if _in_set(list(av), cand):
                    return [cand]
            return [""]
        out = []
        for o, a in av:
            if o == sre.LITERAL:
                out.append(chr(a))
            elif o == sre.RANGE:
                out.append(chr(a[0]))
                if a[1] != a[0]:
                    out.append(chr(a[1]))
            elif o == sre.CATEGORY:
                w = _cat_witness(a)
                if w:
                    out.append(w)
        return out[:4] or [""]
    if op == sre.BRANCH:
        out = []
        for b in av[1]:
            out += _seq_alts(list(b))
        return out
    if op == sre.SUBPATTERN:
        return _seq_alts(list(av[3]))
    if op in (sre.MAX_REPEAT, sre.MIN_REPEAT):
        lo, hi, sub = av
        base = _seq_alts(list(sub))
        counts = [lo]
        two = max(2 * lo, lo + 1, 2) if lo else 2
        if hi != sre.MAXREPEAT:
            two = min(two, hi)
        if two != lo:
            counts.append(two)
        if lo == 0 and 1 not in counts and (hi == sre.MAXREPEAT or hi >= 1):
            counts.insert(1, 1)
        out = []
        for c in counts:
            if c == 0:
                out.append("")
            else:
                for b in base:
                    out.append(b * c)
        return _dedup(out)
    # look-arounds, back references, ... : contribute nothing; the reference decides coverage
    return [""]


def _dedup(xs):
    seen = set()
    out = []
    for x in xs:
        if x not in seen:
            seen.add(x)
            out.append(x)
    return out


def _seq_alts(nodes):
    per = [_node_alts(n) for n in nodes]
    total = 1
    for p in per:
        total *= max(1, len(p))
        if total > WITNESS_CAP:
            break
    if total <= WITNESS_CAP:
        out = [""]
        for p in per:
            out = [a + b for a in out for b in p]
        return _dedup(out)
    # covering fallback: baseline + every single deviation (each alternative appears at least once)
    base = [p[0] for p in per]
    out = ["".join(base)]
    for i, p in enumerate(per):
        for alt in p[1:]:
            out.append("".join(base[:i] + [alt] + base[i + 1:]))
    last = [p[-1] for p in per]
    out.append("".join(last))
    return _dedup(out)


def witnesses(pattern, is_regex):
    if not is_regex:
        return [pattern]
    try:
        tree = sre.parse(pattern)
    except re.error:
        return []
    return [w for w in _seq_alts(list(tree)) if w != ""] or [""]


# ======================================================================================
# 3. Reference JSON recogniser (iterative; no recursion, no json module)
# ======================================================================================

_JSON_WS = " \t\n\r"
_NUM = re.compile(r"-?(?:0|[1-9][0-9]*)(?:\.[0-9]+)?(?:[eE][+-]?[0-9]+)?")
_STR = re.compile(r'"(?:[^"\\\x00-\x1f]|\\["\\/bfnrt]|\\u[0-9a-fA-F]{4})*"')


def ref_json(s):
    """-> (valid, depth) or None when the text uses Python-specific extensions (NaN/Infinity)
    whose acceptance the property does not fix. depth: [] = 1, [[]] = 2, scalar = 0."""
    n = len(s)
    i = 0
    stack = []       # 'a' or 'o'
    depth = 0
    # states: 'v' expect value, 'e' after value, 'k' expect key (or '}'), 'K' expect key, 'c' expect colon
    st = "v"
    first_in = False  # just opened a container: closing bracket allowed
    while True:
        while i < n and s[i] in _JSON_WS:
            i += 1
        if i >= n:
            break
        c = s[i]
        if st == "v":
            if c == "[":
                stack.append("a"); depth = max(depth, len(stack)); i += 1; first_in = True
                continue
            if c == "{":
                stack.append("o"); depth = max(depth, len(stack)); i += 1; st = "k"
                continue
            if c == "]" and first_in and stack and stack[-1] == "a":
                stack.pop(); i += 1; st = "e"; first_in = False
                continue
            first_in = False
            if c == '"':
                m = _STR.match(s, i)
                if not m:
                    return (False, depth)
                i = m.end(); st = "e"
                continue
            if s.startswith(("NaN", "Infinity", "-Infinity"), i):
                return None
            m = _NUM.match(s, i)
            if m:
                i = m.end(); st = "e"
                continue
            for lit in ("true", "false", "null"):
                if s.startswith(lit, i):
                    i += len(lit); st = "e"
                    break
            else:
                return (False, depth)
            continue
        if st in ("k", "K"):
            if c == "}" and st == "k":
                stack.pop(); i += 1; st = "e"
                continue
            if c != '"':
                return (False, depth)
            m = _STR.match(s, i)
            if not m:
                return (False, depth)
            i = m.end(); st = "c"
            continue
        if st == "c":
            if c != ":":
                return (False, depth)
            i += 1; st = "v"; first_in = False
            continue
        if st == "e":
            if not stack:
                return (False, depth)  # trailing data
            if c == ",":
                i += 1
                st = "v" if stack[-1] == "a" else "K"
                first_in = False
                continue
            if c == "]" and stack[-1] == "a" or c == "}" and stack[-1] == "o":
                stack.pop(); i += 1
                continue
            return (False, depth)
    if st != "e" or stack:
        return (False, depth)
    return (True, depth)


# ======================================================================================
# 4. Input specs (a content is a list of parts: str | ["rep", s, n]) and perturbations
# ======================================================================================

def build(spec):
    if isinstance(spec, str):
        return spec
    out = []
    for p in spec:
        if isinstance(p, str):
            out.append(p)
        else:
            out.append(p[1] * p[2])
    return "".join(out)


def spec_key(spec):
    return repr(common.jsonable(spec))


PREFIX = "Hello there"
SUFFIX = "thanks a lot"
SEPS = (" ", "\n", ". ")


def _alt(w, phase):
    return "".join(c.upper() if (i + phase) % 2 == 0 else c.lower() for i, c in enumerate(w))


def _flip(c):
    return c.lower() if c.isupper() else c.upper()


def case_variants(w, flips):
    out = [w.lower(), w.upper(), w.swapcase(), _alt(w, 0), _alt(w, 1)]
    if flips:
        for i, c in enumerate(w):
            f = _flip(c)
            if f != c and len(f) == 1:
                out.append(w[:i] + f + w[i + 1:])
    return [v for v in _dedup(out) if v != w and len(v) == len(w)]


def perturbations(w, first, flips):
    """-> list of (class, spec). Every result is judged by the reference matcher, so a perturbation
    that legitimately un-matches (e.g. a word glued to a \\b anchor) is never asserted."""
    out = [("plain", [w])]
    for v in case_variants(w, flips):
        out.append(("case", [v]))
    for sep in SEPS:
        out.append(("embed", [PREFIX, sep, w]))
        out.append(("embed", [w, sep, SUFFIX]))
        out.append(("embed", [PREFIX, sep, w, sep, SUFFIX]))
        out.append(("embed+case", [PREFIX, sep, w.upper(), sep, SUFFIX]))
    out.append(("embed+case", [PREFIX.upper(), " ", w.swapcase(), "\n", "Été 日"]))
    out.append(("embed", [PREFIX, w, SUFFIX]))  # glued: no separator at all (the reference decides whether it still matches)
    if first:
        out += [
            ("control", [w, "\x07"]),
            ("control", ["\x1b[0m ", w]),
            ("control", [PREFIX, "\t", w, "\r\n", SUFFIX]),
            ("control", ["\x00 ", w, " \x7f\x85 "]),
            ("surrogate", ["\ud800 ", w]),
            ("surrogate", [w, " \udfff"]),
            ("long", [["rep", "a ", 50000], w]),
            ("long", [w, ["rep", " b", 50001]]),
            ("long", [["rep", "lorem ", 20000], "\n", w, "\n", ["rep", "ipsum ", 21000]]),
        ]
    return out


def hostile_inputs():
    H = []

    def add(tag, *parts):
        H.append((tag, list(parts)))

    for s in ["", " ", "hello world", "\x00", "\x1b[31mred", "a\x07b", "\r\n\t", "\x7f", "\x85 ", "\x01\x00"]:
        add("control", s)
    # every C0 control character (and DEL / NEL) on its own inside benign text: the character-set rule is
    # "control characters except TAB, LF, CR", so each code point is its own case
    for c in list(range(0, 32)) + [0x7F, 0x85, 0xA0, 0x2028]:
        add("control", f"note {chr(c)}for the team")
    for s in ["\ud800", "a\udfffb", "\udc00\ud800", '"\ud800"', '["\udfff"]']:
        add("surrogate", s)
    for n in (99_999, 100_000, 100_001, 250_000):
        add("long", ["rep", "a", n])
    add("long", ["rep", "ab ", 33_334])
    add("long", ["rep", "<|", 40], ["rep", "a", 100_000])
    for k in (1, 3, 4, 5, 10, 11, 12, 1000, 50_000):
        add("json-nest", ["rep", "[", k], ["rep", "]", k])
    for k in (3, 4, 10, 11, 1000, 15_000):
        add("json-nest", ["rep", '{"a":', k], "1", ["rep", "}", k])
        add("json-nest", ["rep", '[{"a":', k // 2 + 1], "[]", ["rep", "}]", k // 2 + 1])
    for k in (11, 1000, 50_000):
        add("json-open", ["rep", "[", k])
    add("json-open", ["rep", '{"a":', 15_000])
    add("json-open", ["rep", "[1,", 20_000])
    for n in (4300, 4301, 5000):
        add("json-bignum", ["rep", "1", n])
        add("json-bignum", "-", ["rep", "9", n])
    add("json-bignum", "[", ["rep", "9", 5000], "]")
    add("json-bignum", '{"n":', ["rep", "7", 6000], "}")
    add("json-bignum", "1.", ["rep", "1", 5000])
    add("json-bignum", "1e", ["rep", "9", 5000])
    add("json-bignum", "0.", ["rep", "0", 5000], "1e-", ["rep", "9", 400])
    for s in ["{}", "[]", "[[[]]]", "[[[[]]]]", '"str"', "null", "true", '{"k":"v"}', '{"k":[1,2,{"z":null}]}',
              "[1,]", '{"a"}', "[1 2]", "{", "]", '{"msg":"ignore previous"}', '["jailbreak"]', "01", "1.e3",
              '"\x01"', " [ ] ", "[]x"]:
        add("json-small", s)
    add("json-size", '"', ["rep", "a", 62], '"')
    add("json-size", '"', ["rep", "a", 63], '"')
    add("json-size", "[", ["rep", "1,", 49_999], "1]")
    add("json-size", "[", ["rep", "1,", 50_000], "1]")
    add("json-size", "[", ["rep", "1,", 49_998], "11]")       # valid JSON of exactly 100 000 characters
    # lengths around every min/max bound used by a LengthValidator configuration below
    for n in (2, 3, 4, 5, 6, 39, 40, 41):
        add("length", ["rep", "a", n])
    add("length", "7")                                         # length 1 and valid JSON of depth 0
    return H


# ======================================================================================
# 5. Gate configurations
# ======================================================================================

LEVELS = ["SAFE", "SUSPICIOUS", "DANGEROUS", "CRITICAL"]
M_CHANNELS = ["none", "ctor", "add", "learn", "import"]
ORIGIN = {"ctor": "custom", "add": "added", "learn": "learned", "import": "imported"}


def gen_membrane_sigs():
    """generated custom/learned signatures: substring and regex at every level (+ case/non-ASCII probes)"""
    out = []
    for i, lv in enumerate(LEVELS):
        out.append((f"Zq Token-{lv[:3]}", False, lv))
        out.append((rf"zq\s*reg{i}[0-9]+", True, lv))
    out.append(("Über-Zq", False, "DANGEROUS"))
    out.append((r"ZQ-[A-C]+!", True, "CRITICAL"))
    out.append((r"(?:zqa|zqb){2}\.", True, "SUSPICIOUS"))
    # same text as the CRITICAL substring signature above up to case, at a lower level and installed later: a store
    # that identifies signatures by case-folded text would let this one replace the CRITICAL one
    out.append(("zq token-cri", False, "SUSPICIOUS"))
    return out


def gen_innate_pats():
    out = []
    for sev in (1, 2, 3, 4, 5):
        out.append((f"Zq Pamp-{sev}", False, sev))
        out.append((rf"zq\s*tlr{sev}[0-9]+", True, sev))
    out.append((r"ZQ=[X-Z]{2,3}\b", True, 4))
    out.append(("zq pamp-5", False, 1))   # case twin of the severity-5 substring pattern, lower severity, installed later
    return out


def builtin_membrane():
    return [(s.pattern, bool(s.is_regex), s.level.name) for s in Membrane.INNATE_SIGNATURES]


def builtin_innate():
    return [(p.pattern, bool(p.is_regex), int(p.severity)) for p in InnateImmunity.DEFAULT_PATTERNS]


class _NullOut:
    """stdout stand-in for the non-silent configurations (the check itself prints nothing per case)"""

    def write(self, s):
        return len(s)

    def flush(self):
        pass


_NULL = _NullOut()


def quiet(opts):
    return contextlib.redirect_stdout(_NULL) if opts == "alt" else contextlib.nullcontext()


def _cb_true(_x):
    """threat / inflammation callback of the "alt" configurations: stateless, answers a truthy value"""
    return True


# "std": every constructor / per-call option the property does not quantify over left at its default (silent gates);
# "alt": the non-default value of each of them at once - console output on, callback installed, a (never binding)
# rate limit, inflammation decay 0, and a non-default signal envelope (internal, saturating, metadata, trace id)
OPTS = ["std", "alt"]
ALT_TH = {"M": ("SUSPICIOUS", "CRITICAL"), "I": (1, 4)}


_TABLES = ((Membrane, "INNATE_SIGNATURES", len(Membrane.INNATE_SIGNATURES)),
           (InnateImmunity, "DEFAULT_PATTERNS", len(InnateImmunity.DEFAULT_PATTERNS)))


def table_guard():
    """Gates in one process must not share their signature store: building or extending one gate must leave the
    class-level built-in table (= what every other gate starts from) alone. Reports a grown table once per event and
    truncates it again, so that one leak does not snowball through the rest of the run."""
    v = []
    for cls, name, n in _TABLES:
        lst = getattr(cls, name)
        if len(lst) != n:
            v.append((f"shared-state:{cls.__name__}.{name}-mutated",
                      f"{cls.__name__}.{name} has {len(lst)} entries instead of {n} after building/using one gate: "
                      f"signatures given to one gate became built-ins of every other gate in the process"))
            del lst[n:]
    return v


def make_signal(content, opts="std"):
    if opts == "alt":
        return Signal(content, source="System", signal_type=SignalType.INTERNAL, strength=SignalStrength.SATURATING,
                      metadata={"trusted": True, "role": "system"}, trace_id="w10")
    return Signal(content)


def make_membrane(threshold, channel, gen, rate_limit=None, opts="std"):
    def ts(t):
        return ThreatSignature(t[0], ThreatLevel[t[2]], "generated", is_regex=t[1])

    th = ThreatLevel[threshold]
    kw = dict(threshold=th, silent=True, rate_limit=rate_limit)
    if opts == "alt":
        kw.update(silent=False, on_threat=_cb_true, rate_limit=10 ** 9 if rate_limit is None else rate_limit)
    if channel == "ctor":
        return Membrane(signatures=[ts(t) for t in gen], **kw)
    m = Membrane(**kw)
    if channel == "add":
        for t in gen:
            m.add_signature(ts(t))
    elif channel == "learn":
        for t in gen:
            m.learn_threat(t[0], ThreatLevel[t[2]], "generated", is_regex=t[1])
    elif channel == "import":
        donor = Membrane(silent=True)
        for t in gen:
            donor.learn_threat(t[0], ThreatLevel[t[2]], "generated", is_regex=t[1])
        m.import_antibodies(donor.export_antibodies())
    return m


VSETS = {
    "default": None,
    "json": [("json", 10, 100_000)],
    "json-small": [("json", 3, 64)],
    "length": [("length", 3, 40)],
    "charset": [("charset", False, False)],
    "charset-ctl": [("charset", True, False)],
    "charset-null": [("charset", False, True)],
    "charset-both": [("charset", True, True)],
    "all": [("json", 10, 100_000), ("length", 0, 100_000), ("charset", False, False)],
    # constructor options at their boundary values
    "json-d0": [("json", 0, 100_000)],
    "json-d1": [("json", 1, 100_000)],
    "json-s0": [("json", 10, 0)],
    "json-huge": [("json", 10 ** 6, 10 ** 9)],
    "length-0": [("length", 0, 0)],
    "length-1": [("length", 1, 1)],
    "length-inv": [("length", 5, 4)],
    # installed after construction with add_validator(), on top of the default validators
    "add-json-small": ["add", ("json", 3, 64)],
    "add-length": ["add", ("length", 3, 40)],
}
DEFAULT_VSPEC = [("length", 0, 100_000), ("charset", False, False)]  # documented defaults of InnateImmunity


def vset_spec(vset):
    """-> (how the validators are installed, validators to build, effective rule set for the reference)"""
    spec = VSETS[vset]
    if spec is None:
        return "ctor", None, DEFAULT_VSPEC
    if spec[0] == "add":
        return "add", spec[1:], DEFAULT_VSPEC + spec[1:]
    return "ctor", spec, spec


def make_validators(spec):
    if spec is None:
        return None
    out = []
    for v in spec:
        if v[0] == "json":
            out.append(JSONValidator(max_depth=v[1], max_size=v[2]))
        elif v[0] == "length":
            out.append(LengthValidator(min_length=v[1], max_length=v[2]))
        else:
            out.append(CharacterSetValidator(allow_control_chars=v[1], allow_null=v[2]))
    return out


def tlr(t):
    return TLRPattern(t[0], PAMPCategory.INSTRUCTION_OVERRIDE, "generated", is_regex=t[1], severity=t[2])


def innate_kw(threshold, opts="std", decay=None):
    kw = dict(severity_threshold=threshold, silent=True)
    if opts == "alt":
        kw.update(silent=False, on_inflammation=_cb_true, inflammation_decay_minutes=0)
    if decay is not None:
        kw["inflammation_decay_minutes"] = decay
    return kw


def make_innate(threshold, channel, gen, vset, opts="std"):
    how, build_spec, _ = vset_spec(vset)
    kw = innate_kw(threshold, opts)
    kw["validators"] = make_validators(build_spec) if how == "ctor" else None
    if channel == "ctor":
        g = InnateImmunity(patterns=[tlr(t) for t in gen], **kw)
    else:
        g = InnateImmunity(**kw)
        if channel == "add":
            for t in gen:
                g.add_pattern(tlr(t))
    if how == "add":
        for v in make_validators(build_spec):
            g.add_validator(v)
    return g


_CTL = re.compile("[\x01-\x08\x0b\x0c\x0e-\x1f]")


def ref_rejections(content, vset):
    return ref_rejections_spec(content, vset_spec(vset)[2])


def ref_rejections_spec(content, spec):
    """names of validators that MUST reject by the documented rules (one-directional reference)"""
    out = []
    for v in spec:
        if v[0] == "length":
            if len(content) < v[1] or len(content) > v[2]:
                out.append("LengthValidator")
        elif v[0] == "charset":
            if "\x00" in content and not v[2]:
                out.append("CharacterSetValidator:null")
            elif not v[1] and _CTL.search(content):
                out.append("CharacterSetValidator:control")
        elif v[0] == "json":
            if len(content) > v[2]:
                out.append("JSONValidator:size")
            else:
                r = ref_json(content)
                if r is not None:
                    if not r[0]:
                        out.append("JSONValidator:invalid")
                    elif r[1] > v[1]:
                        out.append("JSONValidator:depth")
    return out


# ======================================================================================
# 6. Engine D: one evaluation = one fresh gate, one call, judged against the reference
# ======================================================================================

_REF = {}


def ref_sigs(gate):
    """-> (builtin RefSigs, generated RefSigs); levels as ints"""
    if gate not in _REF:
        if gate == "M":
            b = [RefSig(p, r, LEVELS.index(lv)) for p, r, lv in builtin_membrane()]
            g = [RefSig(p, r, LEVELS.index(lv)) for p, r, lv in gen_membrane_sigs()]
        else:
            b = [RefSig(p, r, sv) for p, r, sv in builtin_innate()]
            g = [RefSig(p, r, sv) for p, r, sv in gen_innate_pats()]
        _REF[gate] = (b, g)
    return _REF[gate]


def raise_site(e):
    """Class.function of the innermost frame inside the two anchored library files"""
    files = {membrane_mod.__file__, innate_mod.__file__}
    site = "outside-library"
    tb = e.__traceback__
    while tb is not None:
        f = tb.tb_frame
        if f.f_code.co_filename in files:
            slf = f.f_locals.get("self")
            site = (type(slf).__name__ + "." if slf is not None else "") + f.f_code.co_name
        tb = tb.tb_next
    return site


def _kind(sig):
    return "regex" if sig.is_regex else "substring"


class Prepared:
    """content + reference verdicts of one input, computed once and shared by all configurations"""

    def __init__(self, gate, spec):
        self.gate = gate
        self.content = build(spec)
        self._hits = None
        self._rej = {}

    def hits(self, channel, subset=None):
        """matching active signatures; subset = indices of the generated signatures that are installed"""
        b, g = ref_sigs(self.gate)
        if self._hits is None:
            self._hits = ([s for s in b if s.matches(self.content)],
                          [(i, s) for i, s in enumerate(g) if s.matches(self.content)])
        out = [(s, "builtin") for s in self._hits[0]]
        if channel != "none":
            out += [(s, ORIGIN[channel]) for i, s in self._hits[1] if subset is None or i in subset]
        return out

    def active_origin(self, ident, channel, subset=None):
        b, g = ref_sigs(self.gate)
        if any(s.ident == ident for s in b):
            return "builtin"
        if channel != "none" and any(s.ident == ident and (subset is None or i in subset) for i, s in enumerate(g)):
            return ORIGIN[channel]
        return "unknown"

    def rejections(self, vset):
        if vset not in self._rej:
            self._rej[vset] = ref_rejections(self.content, vset)
        return self._rej[vset]


def eval_membrane(threshold, channel, spec, pre=None, subset=None, opts="std"):
    """-> (violations [(key, what)], outcome tuple, nontrivial bool)"""
    pre = pre or Prepared("M", spec)
    content = pre.content
    gen = gen_membrane_sigs()
    if subset is not None:
        subset = tuple(subset)
        gen = [gen[i] for i in subset]
    vclock.use(vclock.VClock())
    with quiet(opts):
        m = make_membrane(threshold, channel, gen, opts=opts)
        try:
            res = m.filter(make_signal(content, opts))
        except Exception as e:  # noqa: BLE001
            return ([(f"raises:{raise_site(e)}:{type(e).__name__}",
                      f"Membrane(threshold={threshold}, {opts}).filter raised {type(e).__name__}: {str(e)[:120]}")],
                    ("M", "raise", type(e).__name__), True)
    v = []
    th = LEVELS.index(threshold)
    hits = pre.hits(channel, subset)
    ref_max = max([s.level for s, _ in hits], default=0)
    if res.allowed:
        for s, o in hits:
            if s.level >= th:
                v.append((f"membrane:allowed-despite-match:{_kind(s)}:{o}",
                          f"threshold {threshold}: allowed although active {o} {_kind(s)} signature {s.pattern!r} "
                          f"(level {LEVELS[s.level]}) matches"))
                break
    got = sorted((g.pattern, bool(g.is_regex), g.level.value) for g in res.matched_signatures)
    exp = sorted(s.ident for s, _ in hits)
    if got != exp:
        missing = [x for x in exp if x not in got]
        extra = [x for x in got if x not in exp]
        tag = "missing" if missing else "extra"
        one = (missing or extra or got)[0]   # neither missing nor extra: an entry reported twice
        origin = pre.active_origin(one, channel, subset)
        v.append((f"membrane:matched-set-{tag}:{'regex' if one[1] else 'substring'}:{origin}",
                  f"matched_signatures {tag} {one!r}; reference matches {exp}, reported {got}"))
    if res.threat_level.value != ref_max:
        v.append(("membrane:threat-level-not-max",
                  f"threat_level {res.threat_level.name} but maximum level over matching signatures is {LEVELS[ref_max]}"))
    log = m.get_audit_log()
    if len(log) != 1 or log[-1].allowed != res.allowed or log[-1].audit_hash != res.audit_hash:
        v.append(("membrane:audit-not-appended", f"audit log has {len(log)} entries after one filter call"))
    v += table_guard()
    return v, ("M", res.allowed, res.threat_level.value, min(len(got), 3)), bool(hits)


def eval_innate(threshold, channel, vset, spec, pre=None, opts="std"):
    pre = pre or Prepared("I", spec)
    content = pre.content
    vclock.use(vclock.VClock())
    with quiet(opts):
        g = make_innate(threshold, channel, gen_innate_pats(), vset, opts)
        try:
            res = g.check(content)
        except Exception as e:  # noqa: BLE001
            return ([(f"raises:{raise_site(e)}:{type(e).__name__}",
                      f"InnateImmunity(validators={vset}, {opts}).check raised {type(e).__name__}: {str(e)[:120]}")],
                    ("I", "raise", type(e).__name__), True)
    hits = pre.hits(channel)
    rej = pre.rejections(vset)
    v = judge_innate(res, hits, rej, threshold, vset, content, lambda one: pre.active_origin(one, channel))
    v += table_guard()
    return (v, ("I", res.allowed, min(len(res.matched_patterns), 3), bool(res.structural_errors),
                int(res.inflammation.level)),
            bool(hits) or bool(rej))


def judge_innate(res, hits, rej, threshold, vset, content, origin_of):
    """oracle for one InnateImmunity.check result; hits = [(RefSig, origin)] of the matching active patterns,
    rej = validator rules that must reject"""
    v = []
    if res.allowed:
        for s, o in hits:
            if s.level >= threshold:
                v.append((f"innate:allowed-despite-match:{_kind(s)}:{o}",
                          f"severity_threshold {threshold}: allowed although active {o} {_kind(s)} pattern "
                          f"{s.pattern!r} (severity {s.level}) matches"))
                break
        if rej:
            v.append((f"innate:allowed-despite-validator:{rej[0]}",
                      f"validators {vset}: allowed although {rej} must reject (len {len(content)})"))
    got = sorted((p.pattern, bool(p.is_regex), int(p.severity)) for p in res.matched_patterns)
    exp = sorted(s.ident for s, _ in hits)
    if got != exp:
        missing = [x for x in exp if x not in got]
        extra = [x for x in got if x not in exp]
        tag = "missing" if missing else "extra"
        one = (missing or extra or got)[0]   # neither missing nor extra: an entry reported twice
        origin = origin_of(one)
        v.append((f"innate:matched-set-{tag}:{'regex' if one[1] else 'substring'}:{origin}",
                  f"matched_patterns {tag} {one!r}; reference matches {exp}, reported {got}"))
    return v


def d_items(tier):
    """Deterministic list of work items (gate, pclass, spec, thresholds, channels, vsets)."""
    quick = tier == "quick"
    items = []
    uncovered = []
    n_wit = 0
    m_th = LEVELS
    i_th = [1, 2, 3, 4, 5, 6]
    for gate, table_b, table_g in (("M", builtin_membrane(), gen_membrane_sigs()),
                                   ("I", builtin_innate(), gen_innate_pats())):
        seen = set()
        firsts = []
        for gi, (p, r, lv) in enumerate(table_b + table_g):
            ref = RefSig(p, r, 0)
            ws = witnesses(p, r)
            if quick:
                ws = ws[:6] + ws[-2:] if len(ws) > 8 else ws
                ws = _dedup(ws)
            for wi, w in enumerate(ws):
                assert_safe_text(w)
                if not ref.matches(w) and not ref.matches(PREFIX + " " + w + " " + SUFFIX):
                    uncovered.append((gate, p, w))
                    continue
                n_wit += 1
                if not any(f[0] == gi for f in firsts):
                    firsts.append((gi, w))
                nlong = 0
                for pclass, spec in perturbations(w, first=(wi == 0), flips=(wi == 0 or not quick)):
                    if pclass == "long":
                        nlong += 1
                        if quick and (nlong - 1) != gi % 3:
                            continue  # quick: one of the three 100k+ embeddings per signature, rotating
                    k = (gate, spec_key(spec))
                    if k in seen:
                        continue
                    seen.add(k)
                    heavy = pclass == "long"
                    if gate == "M":
                        chans = ["none", "learn"] if heavy and quick else M_CHANNELS
                        items.append(("M", pclass, spec, m_th, chans, None))
                    else:
                        chans = ["none", "ctor", "add"]
                        if heavy and quick:
                            items.append(("I", pclass, spec, [3], ["ctor"], ["default", "all"]))
                        else:
                            items.append(("I", pclass, spec, i_th, chans, ["default", "all"]))
                # base witness through every validator set
                if gate == "I":
                    items.append(("I", "plain", [w], [1, 3, 5], ["ctor"],
                                  [k for k in VSETS if k not in ("default", "all")]))
        # two signatures hit by one input (every unordered pair of first witnesses; both orders when a
        # generated custom/learned signature is involved): max-over-matched and exact matched set
        nb = len(table_b)
        for ai, (ga, wa) in enumerate(firsts):
            for gb, wb in firsts[ai + 1:]:
                specs = [[wa, " and ", wb]]
                if gb >= nb:
                    specs.append([wb.upper(), "\n", wa])
                for spec in specs:
                    k = (gate, spec_key(spec))
                    if k in seen:
                        continue
                    seen.add(k)
                    if gate == "M":
                        items.append(("M", "combo", spec, m_th, M_CHANNELS, None))
                    else:
                        items.append(("I", "combo", spec, i_th, ["none", "ctor", "add"], ["default"]))
    # every subset of a family of generated signatures installed as custom / learned ones
    fam = [2, 3, 4, 5] if quick else [0, 1, 2, 3, 4, 5, 6, 7]
    gsig = gen_membrane_sigs()
    fw = [witnesses(gsig[i][0], gsig[i][1])[0] for i in fam]
    subsets = [[fam[j] for j in range(len(fam)) if mask >> j & 1] for mask in range(1 << len(fam))]
    sub_specs = [[w.upper()] for w in fw] + [[fw[j], " / ", fw[j + 1]] for j in range(len(fw) - 1)] + [[" ".join(fw)]]
    for spec in sub_specs:
        items.append(("M", "subset", spec, m_th, ["ctor", "learn"], subsets))
    for tag, spec in hostile_inputs():
        items.append(("M", "hostile:" + tag, spec, m_th, ["none", "ctor", "import"], None))
        if quick:
            items.append(("I", "hostile:" + tag, spec, [3], ["none"], list(VSETS)))
            items.append(("I", "hostile:" + tag, spec, [1], ["add"], ["default", "json", "all"]))
        else:
            items.append(("I", "hostile:" + tag, spec, [1, 3, 6], ["none", "add"], list(VSETS)))
    return items, uncovered, n_wit


def d_work(chunk):
    from collections import Counter
    stats = Counter()
    outcomes = set()
    viols = {}  # key -> [count, what, case]
    nontrivial = set()
    for gate, pclass, spec, ths, chans, vsets in chunk:
        pre = Prepared(gate, spec)
        alt_ths = [t for t in ths if t in ALT_TH[gate]] or ths[:1]
        for opts, th in [("std", t) for t in ths] + [("alt", t) for t in alt_ths]:
            for ch in chans:
                for vs in (vsets or [None]):
                    if gate == "M":
                        v, out, nt = eval_membrane(th, ch, spec, pre, vs, opts)
                        case = {"engine": "D", "gate": "M", "threshold": th, "channel": ch, "spec": spec,
                                "pclass": pclass, "subset": vs, "opts": opts}
                    else:
                        v, out, nt = eval_innate(th, ch, vs, spec, pre, opts)
                        case = {"engine": "D", "gate": "I", "threshold": th, "channel": ch, "vset": vs, "spec": spec,
                                "pclass": pclass, "opts": opts}
                    stats["D.executions"] += 1
                    stats[f"D.opts.{opts}"] += 1
                    stats[f"D.{gate}.{pclass.split(':')[0]}"] += 1
                    outcomes.add(out + (pclass.split(":")[0],))
                    if nt:
                        nontrivial.add((gate, spec_key(spec)))
                        if out[1] is False:
                            stats[f"D.blocked-nontrivial.{pclass.split(':')[0]}"] += 1
                    for key, what in v:
                        what = f"{what}; input class {pclass}, content {pre.content[:80]!r}"
                        cur = viols.get(key)
                        rank = (len(repr(case)), repr(case))
                        if cur is None:
                            viols[key] = [1, what, case, rank]
                        else:
                            cur[0] += 1
                            if rank < cur[3]:
                                cur[1], cur[2], cur[3] = what, case, rank
    RefSig._cache.clear()
    return stats, outcomes, viols, nontrivial


def run_d(ctx):
    items, uncovered, n_wit = d_items(ctx.tier)
    # interleave so that heavy (100k+) inputs are spread over the chunks
    items = common.rotate(items, ctx.seed)
    nchunks = common.NPROC * 6
    chunks = [items[i::nchunks] for i in range(nchunks)]
    chunks = [c for c in chunks if c]
    results = common.pmap(d_work, chunks)
    viols = {}
    nontrivial = set()
    for stats, outcomes, v, nt in results:
        ctx.stats.update(stats)
        ctx.outcomes |= outcomes
        nontrivial |= nt
        for key, (cnt, what, case, rank) in v.items():
            cur = viols.get(key)
            if cur is None:
                viols[key] = [cnt, what, case, rank]
            else:
                cur[0] += cnt
                if rank < cur[3]:
                    cur[1], cur[2], cur[3] = what, case, rank
    for key in sorted(viols):
        cnt, what, case, _ = viols[key]
        for _ in range(cnt):
            ctx.report(key, what, case)
    for u in uncovered:
        ctx.note(f"uncovered witness (reference does not accept it, not judged): {u}")
    ctx.stats["D.items"] = len(items)
    ctx.stats["D.witnesses"] = n_wit
    ctx.stats["D.uncovered_witnesses"] = len(uncovered)
    for it in items[:: max(1, len(items) // 3)][:3]:
        ctx.sample({"engine": "D", "gate": it[0], "class": it[1], "spec": it[2]})
    return {"executions": ctx.stats["D.executions"], "nontrivial": len(nontrivial), "items": len(items)}


# ======================================================================================
# 6b. Generic (name-independent) handling of the gates' internal state: clone, fingerprint, volatile fields
# ======================================================================================
# The explorers need the WHOLE state of a gate (to copy a state and to build the canonical key), but have no business
# knowing how the implementation names or arranges it. Everything below walks `vars(obj)` recursively and decides by
# type / value behaviour only:
#   * locks and other synchronisation objects: by type (a clone gets fresh ones, the key ignores them);
#   * objects of the class-level tables (built-in signatures every gate of the process shares): shared by clones as
#     they are shared by freshly built gates, one token in the key;
#   * instants (datetime values, epoch floats): relative to the state's virtual clock - time remaining if in the
#     future, age if younger than the horizon (rate window / inflammation decay of the configuration), else 'old';
#     'old' entries of a sequence are dropped (expired entries of a sliding window);
#   * volatile fields left out of the key are LOCATED BY BEHAVIOUR on a probe object (never by name): containers
#     that the public clear_audit_log() empties, and int fields behind a private attribute that only ever grow over
#     a probe history in which every other piece of state is set, expired and reset again (call counters).
#     State behind public attributes always stays in the key.

_TH = __import__("threading")
_DT = __import__("datetime")
_COLL = __import__("collections")
_ENUM = __import__("enum")
_TYPES = __import__("types")
_LOCK_T, _RLOCK_T = type(_TH.Lock()), type(_TH.RLock())
_SYNC_T = (_LOCK_T, _RLOCK_T, _TH.Event, _TH.Condition, _TH.Semaphore, _TH.Thread)
_ATOM_T = (type(None), bool, int, float, complex, str, bytes, _ENUM.Enum, type, re.Pattern, _DT.date, _DT.time,
           _DT.timedelta, _DT.tzinfo, _TYPES.FunctionType, _TYPES.BuiltinFunctionType, _TYPES.ModuleType, range)
_FAST_ATOM_T = frozenset([type(None), bool, int, float, str])
_SEQ_T = (list, tuple, _COLL.deque)


def _class_table_objects(classes):
    """objects held by container-valued class attributes (whatever they are called): process-wide objects that every
    instance shares. -> {id: (object, token)}"""
    out = {}
    for cls in classes:
        for attr, v in vars(cls).items():
            if isinstance(v, dict):
                v = list(v.values())
            if isinstance(v, (list, tuple, set, frozenset)):
                for o in v:
                    if not isinstance(o, _ATOM_T) and id(o) not in out:
                        out[id(o)] = (o, ("shared", len(out)))
    return out


_SHARED = _class_table_objects([Membrane, InnateImmunity])


_KIND = {}


def _kind_of(t):
    """classification of a type, decided once per type (by type, never by name)"""
    if issubclass(t, _ENUM.Enum):
        k = "enum"
    elif issubclass(t, _DT.datetime):
        k = "instant"
    elif issubclass(t, float):
        k = "float"
    elif issubclass(t, _ATOM_T):
        k = "re" if issubclass(t, re.Pattern) else "td" if issubclass(t, _DT.timedelta) else \
            "fn" if issubclass(t, (_TYPES.FunctionType, _TYPES.BuiltinFunctionType)) else "atom"
    elif issubclass(t, _SYNC_T):
        k = "sync"
    elif issubclass(t, tuple):
        k = "tuple" if t is tuple else "ntuple"
    elif issubclass(t, (list, _COLL.deque)):
        k = "list" if t is list else "seq"
    elif issubclass(t, (set, frozenset)):
        k = "set" if t is set else "fset" if issubclass(t, frozenset) else "xset"
    elif issubclass(t, dict):
        k = "dict" if t is dict else "xdict"
    elif issubclass(t, _TYPES.MethodType):
        k = "method"
    else:
        k = "obj"
    _KIND[t] = k
    return k


def gclone(obj, memo):
    """deep copy by value; aliasing inside one state is preserved through `memo`"""
    t = type(obj)
    if t in _FAST_ATOM_T:
        return obj
    k = _KIND.get(t) or _kind_of(t)
    if k in ("atom", "enum", "instant", "float", "re", "td", "fn"):
        return obj
    i = id(obj)
    if i in _SHARED:
        return obj
    got = memo.get(i)
    if got is not None:
        return got
    if k == "list":
        new = memo[i] = []
        new.extend([x if type(x) in _FAST_ATOM_T or id(x) in _SHARED else gclone(x, memo) for x in obj])
        return new
    if k == "obj":
        d = getattr(obj, "__dict__", None)
        if isinstance(d, dict):
            try:
                new = t.__new__(t)
            except TypeError:
                new = None
            if new is not None:
                memo[i] = new
                nd = new.__dict__
                for a, v in d.items():
                    nd[a] = v if type(v) in _FAST_ATOM_T else gclone(v, memo)
                for c in t.__mro__:
                    for a in getattr(c, "__slots__", ()):
                        if a not in ("__dict__", "__weakref__") and hasattr(obj, a):
                            object.__setattr__(new, a, gclone(getattr(obj, a), memo))
                return new
        if callable(obj):
            return obj
        new = memo[i] = copy.deepcopy(obj)
        return new
    if k == "dict":
        new = memo[i] = {}
        for a, v in obj.items():
            new[gclone(a, memo)] = gclone(v, memo)
        return new
    if k == "set":
        new = memo[i] = set()
        new.update([gclone(x, memo) for x in obj])
        return new
    if k == "sync":
        if t is _LOCK_T:
            new = _TH.Lock()
        elif t is _RLOCK_T:
            new = _TH.RLock()
        elif isinstance(obj, _TH.Thread):
            new = obj
        else:
            new = t()
        memo[i] = new
        return new
    if k == "tuple":
        new = memo[i] = tuple([gclone(x, memo) for x in obj])
        return new
    if k == "fset":
        new = memo[i] = t([gclone(x, memo) for x in obj])
        return new
    if k == "ntuple":          # namedtuple and friends
        new = memo[i] = t(*[gclone(x, memo) for x in obj])
        return new
    if k in ("seq", "xset"):
        new = memo[i] = copy.copy(obj)  # right subclass / maxlen
        new.clear()
        (new.update if k == "xset" else new.extend)([gclone(x, memo) for x in obj])
        return new
    if k == "xdict":
        new = memo[i] = copy.copy(obj)  # right subclass / default_factory
        new.clear()
        for a, v in obj.items():
            new[gclone(a, memo)] = gclone(v, memo)
        return new
    if k == "method":
        new = memo[i] = _TYPES.MethodType(obj.__func__, gclone(obj.__self__, memo))
        return new
    raise AssertionError(k)


_OLD = ("old",)
_FP_PLAIN_T = frozenset([type(None), bool, int, str])    # fingerprint = the value itself
_RUNS = {}


def _shared_run(ids):
    tok = _RUNS.get(ids)
    if tok is None:
        idx = [_SHARED[i][1][1] for i in ids]
        tok = _RUNS[ids] = ("shared-run", len(idx), __import__("hashlib").blake2b(
            repr(idx).encode(), digest_size=6).hexdigest())
    return tok


class Finger:
    """canonical fingerprint of an object graph relative to a virtual clock"""

    def __init__(self, clock, horizon, skip=frozenset()):
        self.now = clock.now()
        self.epoch = clock.time()
        self.horizon = horizon
        self.skip = skip

    def instant(self, delta):
        if delta > 0:
            return ("in", delta)
        if -delta < self.horizon:
            return ("ago", 0.0 - delta)
        return _OLD

    def fp(self, obj, path=(), depth=0):
        t = type(obj)
        if t in _FP_PLAIN_T:
            return obj
        k = _KIND.get(t) or _kind_of(t)
        if k == "enum":
            return (t.__name__, obj.name)
        if k == "float":
            if obj > 1e9:                                  # seconds since the epoch
                return self.instant(obj - self.epoch)
            return obj if t is float else (t.__name__, repr(obj))
        if k == "instant":
            try:
                return self.instant((obj.replace(tzinfo=None) - self.now).total_seconds())
            except (TypeError, OverflowError):
                return ("datetime", obj.isoformat())
        sh = _SHARED.get(id(obj))
        if sh is not None:
            return sh[1]
        if depth > 30:
            return ("deep", t.__name__)
        if k == "obj":
            d = getattr(obj, "__dict__", None)
            if isinstance(d, dict):
                items = [t.__name__]
                skip = self.skip
                for a in sorted(d):
                    sub = None if path is None else path + (a,)
                    if sub is not None and sub in skip:
                        continue
                    v = d[a]
                    items.append((a, v if type(v) in _FP_PLAIN_T else self.fp(v, sub, depth + 1)))
                return tuple(items)
            if callable(obj):
                return ("fn", getattr(obj, "__qualname__", t.__name__))
            return (t.__name__, repr(obj))
        if k in ("list", "tuple", "seq", "ntuple"):
            n = 0
            head = ()
            if obj and id(obj[0]) in _SHARED:
                # leading run of class-table objects (the built-ins every gate starts with): one token
                ids = tuple(map(id, obj))
                while n < len(ids) and ids[n] in _SHARED:
                    n += 1
                head = (_shared_run(ids[:n]),)
                obj = list(obj)[n:]
            out = [x if type(x) in _FP_PLAIN_T else self.fp(x, None, depth + 1) for x in obj]
            return head + tuple([x for x in out if x is not _OLD])
        if k in ("set", "fset", "xset"):
            return ("set",) + tuple(sorted([self.fp(x, None, depth + 1) for x in obj], key=repr))
        if k in ("dict", "xdict"):
            return ("map",) + tuple(sorted([(self.fp(a, None, depth + 1), self.fp(v, None, depth + 1))
                                            for a, v in obj.items()], key=repr))
        if k == "sync":
            return ("sync",)
        if k == "re":
            return ("re", obj.pattern, obj.flags)
        if k == "td":
            return ("td", obj.total_seconds())
        if k == "method":
            return ("method", obj.__func__.__qualname__)
        if k == "fn":
            return ("fn", getattr(obj, "__qualname__", t.__name__))
        return (t.__name__, repr(obj))


def _is_private(path):
    return any(k.startswith("_") for k in path)


def _attr_leaves(obj, path=(), out=None, depth=0):
    """attribute paths (through objects, not into containers) -> ('n', int value) | ('c', container size)"""
    out = {} if out is None else out
    d = getattr(obj, "__dict__", None)
    if not isinstance(d, dict) or depth > 4:
        return out
    for k, v in d.items():
        p = path + (k,)
        if isinstance(v, _ENUM.Enum) or isinstance(v, bool) or id(v) in _SHARED:
            continue
        if isinstance(v, int):
            out[p] = ("n", v)
        elif isinstance(v, (list, dict, set, _COLL.deque)):
            out[p] = ("c", len(v))
        elif not isinstance(v, _ATOM_T) and not isinstance(v, _SYNC_T) and not callable(v):
            _attr_leaves(v, p, out, depth + 1)
    return out


def volatile_paths(gate, calls, clear=None):
    """Private attribute paths that carry no behaviour, found by running `calls` (callables taking the gate; a
    history that sets, expires and resets every real piece of state) on a probe gate:
      * int leaves that never decrease over the whole history and do grow: call counters;
      * containers that are non-empty at the end and that the public `clear()` empties: the audit trail.
    A probe that fails (changed tree) yields no exclusions - the key then merely merges less."""
    try:
        snaps = [_attr_leaves(gate)]
        for c in calls:
            try:
                c(gate)
            except Exception:  # noqa: BLE001 - judged by the engines, not here
                pass
            snaps.append(_attr_leaves(gate))
        out = set()
        for p, (kind, v0) in snaps[0].items():
            if kind != "n" or not _is_private(p):
                continue
            seq = [s.get(p) for s in snaps]
            if all(x is not None and x[0] == "n" for x in seq):
                vals = [x[1] for x in seq]
                if all(a <= b for a, b in zip(vals, vals[1:])) and vals[-1] > vals[0]:
                    out.add(p)
        if clear is not None:
            before = snaps[-1]
            clear(gate)
            after = _attr_leaves(gate)
            for p, x in before.items():
                if x[0] == "c" and x[1] > 0 and after.get(p) == ("c", 0) and _is_private(p):
                    out.add(p)
        return frozenset(out)
    except Exception:  # noqa: BLE001
        return frozenset()


def clone_clock(clock):
    c = vclock.VClock()
    c._now, c._t0 = clock._now, clock._t0      # mc.vclock's own fields (harness code, not the library's)
    return c


def selfcheck_failed(ctx, msg):
    """a clone / key inconsistency may be caused by the tree under test: deferred, so that the engines still run and
    the run ends with exit 2 only when no violation was found at all"""
    ctx.defer_harness_error(msg)


# ======================================================================================
# 7. Engine A: membrane histories under a virtual clock
# ======================================================================================

# learnable patterns: [2] has the text of [1] with the other regex-ness (as a substring it matches only its own
# literal text), [3] differs from [0] by case only - both collide with an earlier entry in any store that identifies
# a learned pattern by less than (exact text -> latest signature)
LEARNABLE = [("Xyzzy Token", False), (r"plu+gh\s+\d+", True), (r"plu+gh\s+\d+", False), ("xyzzy TOKEN", False)]
LEARN_OPS = [(0, "SUSPICIOUS"), (0, "CRITICAL"), (1, "SUSPICIOUS"), (1, "CRITICAL"), (2, "DANGEROUS"), (3, "SUSPICIOUS")]
FORGET_OPS = [0, 1, 3]   # forget is by text: [2] has the text of [1]
CUSTOM = [(r"frob(?:nitz|ozz)", True, "DANGEROUS")]


def a_inputs():
    """benign, witnesses of two built-ins of different levels (one case-perturbed), witnesses of the
    learnable patterns and of the custom signature - all derived from the signature tables"""
    b = builtin_membrane()
    crit = next(p for p, r, lv in b if lv == "CRITICAL" and not r)
    susp = next(p for p, r, lv in b if lv == "SUSPICIOUS" and not r)
    w1 = witnesses(*LEARNABLE[0])[0]
    w2 = witnesses(*LEARNABLE[1])[-1]
    w3 = witnesses(CUSTOM[0][0], True)[-1]
    return ["hello world", f"Please {crit} ok", susp.upper(), f"say {w1.lower()} now", w2.upper() + "!",
            f"the {w3.swapcase()} co", f"{susp} {w1.upper()}", f"x {LEARNABLE[2][0].upper()} y"]


class RefMembrane:
    """Reference state written from the property text: active signatures, inputs blocked by a
    scan before, admission times inside the rate window."""

    def __init__(self, threshold, adaptive, rate_limit):
        self.threshold = LEVELS.index(threshold)
        self.adaptive = adaptive
        self.rate_limit = rate_limit
        self.custom = []      # [(RefSig, origin)]
        self.learned = {}     # pattern -> (RefSig, origin)
        self.blocked_before = set()
        self.admitted = []
        self.passed = []          # times of the calls that were neither rate-limited (role split only, see _filter)

    def copy(self):
        c = RefMembrane.__new__(RefMembrane)
        c.threshold, c.adaptive, c.rate_limit = self.threshold, self.adaptive, self.rate_limit
        c.custom = list(self.custom)
        c.learned = dict(self.learned)
        c.blocked_before = set(self.blocked_before)
        c.admitted = list(self.admitted)
        c.passed = list(self.passed)
        return c

    def active(self):
        return [(s, "builtin") for s in ref_sigs("M")[0]] + self.custom + list(self.learned.values())

    def canon(self, now):
        return (self.threshold, tuple(s.ident for s, _ in self.custom),
                tuple(sorted((p, s.ident, o) for p, (s, o) in self.learned.items())),
                tuple(sorted(self.blocked_before)), tuple(sorted(now - t for t in self.admitted if now - t < 60)),
                tuple(sorted(now - t for t in self.passed if now - t < 60)))


_SIGCACHE = {}


def _refsig(p, r, lv):
    k = (p, r, lv)
    if k not in _SIGCACHE:
        _SIGCACHE[k] = RefSig(p, r, LEVELS.index(lv))
    return _SIGCACHE[k]


def _mem_probe_calls():
    """history for locating the membrane's volatile fields: rate-limited filtering of benign and blocked inputs,
    learn / forget, relaxing the threshold, letting the rate window expire"""
    crit = next(p for p, r, lv in builtin_membrane() if lv == "CRITICAL" and not r)
    p, r = LEARNABLE[0]

    def flt(x):
        return lambda m: m.filter(Signal(x))

    return [flt("hello world"), flt("hello world"), lambda m: m.learn_threat(p, ThreatLevel.CRITICAL, "probe", is_regex=r),
            flt(crit), flt(crit), flt(witnesses(p, r)[0]), lambda m: m.forget_threat(p),
            lambda m: m.set_threshold(ThreatLevel.CRITICAL), lambda m: vclock.SWITCH.advance(61), flt("hello world"),
            flt("hello again")]


def membrane_volatile():
    vclock.use(vclock.VClock())
    return volatile_paths(Membrane(silent=True, rate_limit=4), _mem_probe_calls(), lambda m: m.clear_audit_log())


RATE_WINDOW = 60   # seconds; the window of "at most rate_limit inputs are admitted per window"


class AState:
    __slots__ = ("root", "clock", "mem", "ref", "last")


class AModel:
    """wide=True: the full operation alphabet. wide=False: the core alphabet (2 learnable patterns with one
    regex-ness each, default option set) that the thorough tier additionally explores one level deeper."""

    def __init__(self, tier, wide=True):
        self.tier = tier
        self.wide = wide
        self.inputs = a_inputs()
        self.volatile = membrane_volatile()

    def roots(self):
        r = [[None, "DANGEROUS", True], [0, "DANGEROUS", True], [1, "DANGEROUS", True], [2, "DANGEROUS", True],
             [None, "SUSPICIOUS", False]]
        if self.wide:
            r.append([1, "DANGEROUS", True, "alt"])
        if self.tier != "quick":
            r += [[2, "CRITICAL", True], [1, "SAFE", True]]
            if self.wide:
                r.append([None, "SUSPICIOUS", False, "alt"])
        return r

    def build(self, root):
        st = AState()
        st.root = tuple(root)
        rate, th, adaptive = root[:3]
        opts = root[3] if len(root) > 3 else "std"
        st.clock = vclock.VClock()
        vclock.use(st.clock)
        kw = dict(silent=False, on_threat=_cb_true) if opts == "alt" else dict(silent=True)
        st.mem = {"A": Membrane(threshold=ThreatLevel[th], enable_adaptive=adaptive, rate_limit=rate, **kw),
                  "B": Membrane(threshold=ThreatLevel.DANGEROUS, silent=True)}
        st.ref = {"A": RefMembrane(th, adaptive, rate), "B": RefMembrane("DANGEROUS", True, None)}
        st.last = ("init",)
        return st

    def clone(self, st):
        c = AState()
        c.root = st.root
        c.clock = clone_clock(st.clock)
        memo = {}
        c.mem = {k: gclone(m, memo) for k, m in st.mem.items()}
        c.ref = {k: r.copy() for k, r in st.ref.items()}
        c.last = st.last
        return c

    def ops(self, st):
        w = self.wide
        o = [("filter", "A", i) for i in range(len(self.inputs)) if w or i != 7]
        o += [("filter", "B", 3), ("filter", "B", 4)] + ([("filter", "B", 7)] if w else [])
        o += [("learn", "A", pi, lv) for pi, lv in LEARN_OPS if w or pi < 2]
        o += [("forget", "A", pi) for pi in FORGET_OPS if w or pi < 2]
        o += [("learn", "B", 1, "DANGEROUS"), ("learn", "B", 0, "CRITICAL")]
        if not st.ref["A"].custom:
            o.append(("add", "A", 0))
        if w:
            o += [("cfilter", "A", 0), ("cfilter", "A", 1)]   # clear_audit_log() immediately followed by filter
        o += [("threshold", "A", lv) for lv in LEVELS]
        o += [("xfer", "A", "B"), ("xfer", "B", "A")]
        if st.root[0] is not None:
            o += [("advance", 1), ("advance", 59), ("advance", 61)]
        return o

    def canon(self, st, full=False):
        """whole implementation state of both membranes (generic fingerprint minus the behaviour-located volatile
        fields; full=True keeps those too) + the reference state"""
        now = st.clock.time()
        f = Finger(st.clock, RATE_WINDOW, frozenset() if full else self.volatile)
        return (f.fp(st.mem["A"]), f.fp(st.mem["B"]), st.ref["A"].canon(now), st.ref["B"].canon(now))

    def observe(self, st):
        return repr(st.last)

    def step(self, st, op):
        with quiet(st.root[3] if len(st.root) > 3 else "std"):
            return self._step(st, op) + table_guard()

    def _step(self, st, op):
        vclock.use(st.clock)
        kind = op[0]
        if kind == "advance":
            st.clock.advance(op[1])
            st.last = ("advance",)
            return []
        who = op[1]
        m, ref = st.mem[who], st.ref[who]
        try:
            if kind == "filter":
                return self._filter(st, m, ref, self.inputs[op[2]])
            if kind == "cfilter":
                m.clear_audit_log()
                return self._filter(st, m, ref, self.inputs[op[2]])
            if kind == "learn":
                p, r = LEARNABLE[op[2]]
                m.learn_threat(p, ThreatLevel[op[3]], "learned", is_regex=r)
                if ref.adaptive:
                    ref.learned[p] = (_refsig(p, r, op[3]), "learned")
            elif kind == "forget":
                p, r = LEARNABLE[op[2]]
                m.forget_threat(p)
                ref.learned.pop(p, None)
            elif kind == "add":
                p, r, lv = CUSTOM[op[2]]
                m.add_signature(ThreatSignature(p, ThreatLevel[lv], "custom", is_regex=r))
                ref.custom.append((_refsig(p, r, lv), "added"))
            elif kind == "threshold":
                m.set_threshold(ThreatLevel[op[2]])
                ref.threshold = LEVELS.index(op[2])
            elif kind == "xfer":
                dst, rdst = st.mem[op[2]], st.ref[op[2]]
                dst.import_antibodies(m.export_antibodies())
                for p, (s, _o) in ref.learned.items():
                    rdst.learned[p] = (s, "imported")
            else:
                raise AssertionError(op)
        except AssertionError:
            raise
        except Exception as e:  # noqa: BLE001
            return [(f"raises:{raise_site(e)}:{type(e).__name__}", f"{kind} raised {type(e).__name__}: {e}")]
        st.last = (kind,)
        return []

    def _filter(self, st, m, ref, x):
        n0 = len(m.get_audit_log())
        res = m.filter(make_signal(x, st.root[3] if len(st.root) > 3 else "std"))
        now = st.clock.time()
        v = []
        log = m.get_audit_log()
        if len(log) != n0 + 1:
            v.append((f"membrane:audit-delta:{len(log) - n0}",
                      f"audit trail grew by {len(log) - n0} (expected exactly 1) for one filter call"))
        elif log[-1].allowed != res.allowed or log[-1].audit_hash != res.audit_hash:
            v.append(("membrane:audit-entry-differs", "last audit entry is not the returned decision"))
        # role of this call, from the history of public calls only: a CRITICAL block without matched signatures is
        # the replay-memory / rate-limit answer only if this input was blocked by a scan before or the window is full
        # (calls that were not themselves rate-limited in (t-60, t] >= rate_limit); otherwise it is a scan decision
        # and "threat level = max over matched" applies to it
        window_full = False
        if ref.rate_limit is not None:
            ref.passed = [t for t in ref.passed if t > now - 60]
            window_full = len(ref.passed) >= ref.rate_limit
            if not window_full:
                ref.passed.append(now)
        may_shortcut = window_full or x in ref.blocked_before
        shortcut = may_shortcut and (not res.allowed) and res.threat_level.value == 3 and not res.matched_signatures
        hits = [(s, o) for s, o in ref.active() if s.matches(x)]
        if res.allowed:
            for s, o in hits:
                if s.level >= ref.threshold:
                    v.append((f"membrane:allowed-despite-match:{_kind(s)}:{o}",
                              f"threshold {LEVELS[ref.threshold]}: {x!r} allowed although active {o} {_kind(s)} "
                              f"signature {s.pattern!r} (level {LEVELS[s.level]}) matches"))
                    break
            if x in ref.blocked_before:
                v.append(("membrane:blocked-before-now-allowed",
                          f"{x!r} was blocked by a signature scan earlier in this membrane and is allowed now"))
            if ref.rate_limit is not None:
                ref.admitted = [t for t in ref.admitted if t > now - 60]
                if len(ref.admitted) + 1 > ref.rate_limit:
                    v.append(("membrane:rate-limit-exceeded",
                              f"{len(ref.admitted) + 1} inputs admitted within the last 60 s, rate_limit={ref.rate_limit}"))
                ref.admitted.append(now)
        if not shortcut:
            got = sorted((g.pattern, bool(g.is_regex), g.level.value) for g in res.matched_signatures)
            exp = sorted(s.ident for s, _ in hits)
            if got != exp:
                missing = [e for e in exp if e not in got]
                tag = "missing" if missing else "extra"
                one = (missing or [g for g in got if g not in exp] or got)[0]
                origin = next((o for s, o in ref.active() if s.ident == one), "unknown")
                v.append((f"membrane:matched-set-{tag}:{'regex' if one[1] else 'substring'}:{origin}",
                          f"filter({x!r}) reported {got}, reference matches {exp}"))
            ref_max = max([s.level for s, _ in hits], default=0)
            if res.threat_level.value != ref_max:
                v.append(("membrane:threat-level-not-max",
                          f"filter({x!r}) threat_level {res.threat_level.name}, max over matching is {LEVELS[ref_max]}"))
            if not res.allowed:
                ref.blocked_before.add(x)
        st.last = ("filter", res.allowed, res.threat_level.value, shortcut, len(res.matched_signatures))
        return v


def a_selfcheck(model, ctx):
    """clone must equal the original and a rebuild by replay in EVERY field (full fingerprint, nothing excluded),
    behave like them, and share no mutable object with the original"""
    hist = [("learn", "A", 1, "CRITICAL"), ("filter", "A", 4), ("add", "A", 0), ("advance", 59), ("filter", "A", 1),
            ("xfer", "A", "B"), ("filter", "B", 4), ("threshold", "A", "CRITICAL"), ("filter", "A", 5)]
    try:
        for root in model.roots()[:3] + model.roots()[5:6]:
            a = model.build(root)
            done = []
            for op in hist:
                if op[0] == "advance" and root[0] is None:
                    continue
                model.step(a, op)
                done.append(op)
                b = model.clone(a)
                if model.canon(a, full=True) != model.canon(b, full=True):
                    return selfcheck_failed(ctx, f"membrane clone differs from original after {done}")
                if model.canon(a, full=True) != model.canon(explore.rebuild(model, list(root), done), full=True):
                    return selfcheck_failed(ctx, f"membrane state is not a function of the history {done} (replay "
                                                 f"differs from the stepped original)")
                before = model.canon(a, full=True)
                for probe in (("filter", "A", 4), ("filter", "A", 0), ("learn", "A", 0, "CRITICAL")):
                    c1, c2 = model.clone(a), model.clone(b)
                    if model.step(c1, probe) != model.step(c2, probe) or c1.last != c2.last \
                            or model.canon(c1, full=True) != model.canon(c2, full=True):
                        return selfcheck_failed(ctx, "membrane clone not observationally equal to original")
                if model.canon(a, full=True) != before:
                    return selfcheck_failed(ctx, "stepping a membrane clone changed the original (shared mutable object)")
            if set(vars(a.mem["A"])) != set(vars(model.clone(a).mem["A"])):
                return selfcheck_failed(ctx, "membrane clone misses fields")
    except common.HarnessError:
        raise
    except Exception as e:  # noqa: BLE001 - e.g. a changed tree that cannot be cloned: the engines judge it
        selfcheck_failed(ctx, f"membrane clone self-check crashed: {type(e).__name__}: {e}")


def run_a(ctx):
    model = AModel(ctx.tier)
    a_selfcheck(model, ctx)
    if ctx.tier == "quick":
        res = explore.explore(model, ctx, 5)
        res["base"] = None
        return res
    # thorough: the full alphabet to depth 6, and the core alphabet one level deeper
    res = explore.explore(model, ctx, 6, max_states=1_500_000)
    res["base"] = explore.explore(AModel(ctx.tier, wide=False), ctx, 7, max_states=1_500_000, label="Abase")
    return res


# ======================================================================================
# 7b. Engine A on the innate gate: check / add_pattern / add_validator / reset / clock histories
# ======================================================================================

I_GEN = [("Zq Hist-5", False, 5), (r"zq\s*hist2[0-9]+", True, 2)]
I_VADD = [("json", 3, 64), ("length", 3, 40)]


def i_inputs():
    """benign text, witnesses of built-in patterns of three severities (case-perturbed / embedded / inside a JSON
    document), witnesses of the two patterns that can be added, a control character, a tiny JSON document and a
    two-character text (the added validators accept / reject them) - derived from the tables"""
    b = builtin_innate()
    s5 = next(p for p, r, sv in b if sv == 5 and not r)
    s3 = next(p for p, r, sv in b if sv == 3 and not r)
    r4 = next(p for p, r, sv in b if sv == 4 and r)
    g1 = witnesses(I_GEN[1][0], True)[-1]
    return ["hello world", f'["{s5.upper()}"]', f"{PREFIX}\n{s3}", witnesses(r4, True)[0].swapcase(),
            f"say {I_GEN[0][0].lower()} ok", g1.upper() + "!", "note \x07 bell", "[1]", "hi"]


class RefInnate:
    """Reference state from the property text: threshold, added patterns, added validators. Nothing else: the
    statement makes `allowed` a function of the input and the rule set, whatever was checked before."""

    def __init__(self, threshold):
        self.threshold = threshold
        self.added = []     # indices into I_GEN
        self.vadded = []    # indices into I_VADD

    def copy(self):
        c = RefInnate(self.threshold)
        c.added, c.vadded = list(self.added), list(self.vadded)
        return c

    def active(self):
        return [(s, "builtin") for s in ref_sigs("I")[0]] + [(_irefsig(i), "added") for i in self.added]

    def vspec(self):
        return DEFAULT_VSPEC + [I_VADD[i] for i in self.vadded]


def _irefsig(i):
    k = ("I", i)
    if k not in _SIGCACHE:
        _SIGCACHE[k] = RefSig(*I_GEN[i])
    return _SIGCACHE[k]


def innate_volatile():
    """probe history: benign / blocked checks, reset, letting the inflammation cool down"""
    b = builtin_innate()
    s5 = next(p for p, r, sv in b if sv == 5 and not r)
    s3 = next(p for p, r, sv in b if sv == 3 and not r)

    def chk(x):
        return lambda g: g.check(x)

    vclock.use(vclock.VClock())
    return volatile_paths(InnateImmunity(silent=True),
                          [chk("hello world"), chk(s5), chk(s3), chk("hello world"), lambda g: g.reset_inflammation(),
                           chk(s3), lambda g: vclock.SWITCH.advance(16 * 60), chk("hello world"), chk("hello again")])


class IState:
    __slots__ = ("root", "clock", "gate", "ref", "last")


class IModel:
    def __init__(self, tier):
        self.tier = tier
        self.inputs = i_inputs()
        self.volatile = innate_volatile()

    def roots(self):
        # [severity_threshold, inflammation_decay_minutes, option set]
        r = [[3, 15, "std"], [1, 0, "alt"], [5, 15, "alt"], [6, 1, "std"]]
        if self.tier != "quick":
            r += [[2, 15, "std"], [4, 0, "std"], [3, 10 ** 6, "alt"], [0, 15, "std"], [100, 15, "std"]]
        return r

    def build(self, root):
        st = IState()
        st.root = tuple(root)
        th, decay, opts = root
        st.clock = vclock.VClock()
        vclock.use(st.clock)
        st.gate = {"A": InnateImmunity(**innate_kw(th, opts, decay)), "B": InnateImmunity(silent=True)}
        st.ref = {"A": RefInnate(th), "B": RefInnate(3)}
        st.last = ("init",)
        return st

    def clone(self, st):
        c = IState()
        c.root = st.root
        c.clock = clone_clock(st.clock)
        memo = {}
        c.gate = {k: gclone(g, memo) for k, g in st.gate.items()}
        c.ref = {k: r.copy() for k, r in st.ref.items()}
        c.last = st.last
        return c

    def ops(self, st):
        o = [("check", "A", i) for i in range(len(self.inputs))]
        o += [("check", "B", 1), ("check", "B", 4)]
        o += [("addp", "A", i) for i in range(len(I_GEN)) if i not in st.ref["A"].added]
        o += [("addv", "A", i) for i in range(len(I_VADD)) if i not in st.ref["A"].vadded]
        o += [("reset", "A"), ("advance", 60), ("advance", 16 * 60)]
        return o

    def canon(self, st, full=False):
        """whole implementation state of both gates (generic fingerprint minus the behaviour-located call counters);
        stored instants: time remaining for deadlines in the future; this gate has no sliding window, so all instants
        in the past are equivalent (horizon 0)"""
        f = Finger(st.clock, 0, frozenset() if full else self.volatile)
        return (f.fp(st.gate["A"]), f.fp(st.gate["B"]),
                tuple((tuple(r.added), tuple(r.vadded)) for r in (st.ref["A"], st.ref["B"])))

    def observe(self, st):
        return repr(st.last)

    def step(self, st, op):
        with quiet(st.root[2]):
            return self._step(st, op) + table_guard()

    def _step(self, st, op):
        vclock.use(st.clock)
        kind = op[0]
        if kind == "advance":
            st.clock.advance(op[1])
            st.last = ("advance",)
            return []
        g, ref = st.gate[op[1]], st.ref[op[1]]
        try:
            if kind == "check":
                x = self.inputs[op[2]]
                res = g.check(x)
                hits = [(s, o) for s, o in ref.active() if s.matches(x)]
                rej = ref_rejections_spec(x, ref.vspec())
                st.last = ("check", res.allowed, len(res.matched_patterns), bool(res.structural_errors),
                           int(res.inflammation.level))
                return judge_innate(res, hits, rej, ref.threshold, ref.vspec(), x,
                                    lambda one: next((o for s, o in ref.active() if s.ident == one), "unknown"))
            if kind == "addp":
                g.add_pattern(tlr(I_GEN[op[2]]))
                ref.added.append(op[2])
            elif kind == "addv":
                g.add_validator(make_validators([I_VADD[op[2]]])[0])
                ref.vadded.append(op[2])
            elif kind == "reset":
                g.reset_inflammation()
            else:
                raise AssertionError(op)
        except AssertionError:
            raise
        except Exception as e:  # noqa: BLE001
            return [(f"raises:{raise_site(e)}:{type(e).__name__}", f"{kind} raised {type(e).__name__}: {e}")]
        st.last = (kind,)
        return []


def i_selfcheck(model, ctx):
    hist = [("check", "A", 1), ("addp", "A", 0), ("check", "A", 4), ("advance", 60), ("addv", "A", 0),
            ("check", "A", 7), ("check", "B", 1), ("reset", "A"), ("check", "A", 0)]
    try:
        for root in model.roots()[:2]:
            a = model.build(root)
            for i, op in enumerate(hist):
                model.step(a, op)
                b = model.clone(a)
                if model.canon(a, full=True) != model.canon(b, full=True):
                    return selfcheck_failed(ctx, f"innate clone differs from original after {hist[:i + 1]}")
                r = explore.rebuild(model, list(root), hist[:i + 1])
                if model.canon(a, full=True) != model.canon(r, full=True):
                    return selfcheck_failed(ctx, f"innate clone history differs from replay after {hist[:i + 1]}")
                before = model.canon(a, full=True)
                for probe in (("check", "A", 2), ("check", "A", 0), ("check", "B", 4), ("addp", "A", 1)):
                    c1, c2 = model.clone(a), model.clone(b)
                    if model.step(c1, probe) != model.step(c2, probe) or c1.last != c2.last \
                            or model.canon(c1, full=True) != model.canon(c2, full=True):
                        return selfcheck_failed(ctx, "innate clone not observationally equal to original")
                if model.canon(a, full=True) != before or model.canon(b, full=True) != before:
                    return selfcheck_failed(ctx, "stepping a clone changed the original (shared mutable field)")
            if set(vars(a.gate["A"])) != set(vars(model.clone(a).gate["A"])):
                return selfcheck_failed(ctx, "innate clone misses fields")
    except common.HarnessError:
        raise
    except Exception as e:  # noqa: BLE001
        selfcheck_failed(ctx, f"innate clone self-check crashed: {type(e).__name__}: {e}")


def run_i(ctx):
    model = IModel(ctx.tier)
    i_selfcheck(model, ctx)
    depth = 5 if ctx.tier == "quick" else 6
    return explore.explore(model, ctx, depth, max_states=None if ctx.tier == "quick" else 1_500_000, label="I")


# ======================================================================================
# 8. run / replay
# ======================================================================================

def run(ctx):
    sys.setrecursionlimit(max(sys.getrecursionlimit(), 1000))
    d = run_d(ctx)
    a = run_a(ctx)
    ih = run_i(ctx)
    ab = a["base"] or {"states": 0, "transitions": 0, "capped": False, "depth_completed": 0}
    execs = d["executions"] + a["transitions"] + ih["transitions"] + ab["transitions"]
    ctx.coverage.update(
        states=a["states"] + ih["states"],
        transitions=a["transitions"] + ih["transitions"] + ab["transitions"],
        traces_validated_against_impl=execs,
        evaluations=execs,
        distinct_nontrivial=d["nontrivial"] + a["states"] + ih["states"],
        rule="D: every signature of both gates (built-in tables read at run time + generated custom/learned/imported "
             "ones, substring and regex, every level/severity) -> witnesses from the re parse tree (each alternation "
             "branch, min and 2x repetitions) x perturbations (case variants incl. single flips, embedding with 3 "
             "separators, control chars, lone surrogates, 100k+ lengths) + hostile structural inputs; each run on a "
             "fresh gate for every threshold x installation channel x validator set (incl. boundary-valued validator "
             "options and add_validator), and again with every other constructor / signal option at a non-default "
             "value ('alt') for two thresholds per gate. distinct non-trivial D case = "
             "distinct (gate, content) that matches >=1 signature or must be rejected by a validator. A: BFS over "
             "membrane histories (2 membranes, virtual clock) and BFS over innate-gate histories (2 gates: check / "
             "add_pattern / add_validator / reset_inflammation / clock advance); distinct = canonical state",
        exhaustive=not a["capped"] and not ih["capped"] and not ab["capped"],
        a_core_alphabet_states=ab["states"],
        a_core_alphabet_transitions=ab["transitions"],
        a_core_alphabet_depth_completed=ab["depth_completed"],
        depth_completed=a["depth_completed"],
        fixpoint=a["fixpoint"],
        d_executions=d["executions"],
        d_inputs=d["items"],
        a_roots=a["roots"],
        a_inputs=AModel(ctx.tier).inputs,
        a_states=a["states"],
        a_transitions=a["transitions"],
        i_roots=ih["roots"],
        i_inputs=IModel(ctx.tier).inputs,
        i_states=ih["states"],
        i_transitions=ih["transitions"],
        i_depth_completed=ih["depth_completed"],
        option_sets=OPTS,
        thresholds=LEVELS,
        membrane_channels=M_CHANNELS,
        validator_sets=list(VSETS),
    )
    caps = []
    if a["capped"]:
        caps.append(f"engine A (membrane) stopped at {a['states']} states (depth {a['depth_completed']} complete)")
    if ab["capped"]:
        caps.append(f"engine A (membrane, core alphabet) stopped at {ab['states']} states "
                    f"(depth {ab['depth_completed']} complete)")
    if ih["capped"]:
        caps.append(f"engine A (innate) stopped at {ih['states']} states (depth {ih['depth_completed']} complete)")
    if caps:
        ctx.coverage["caps_hit"] = "; ".join(caps)
    ctx.note("reading: replay-memory and rate-limit short-circuits report CRITICAL with no matched signature by "
             "design; 'threat level = max over matched' is asserted for scan decisions only")
    ctx.note("reading: 'at most rate_limit admitted per window' is asserted on allowed=True results in (t-60, t]; the "
             "stronger reading (requests passing the rate check, including ones the scan then blocks) is what the "
             "code implements and is not separately asserted")
    ctx.note("reading: re-learning/importing a pattern replaces the earlier entry for the same pattern text (latest "
             "level and regex-ness win); texts that differ only by case are different patterns")
    ctx.note("reading: the innate gate may block more after earlier detections (inflammation); asserted is only that an "
             "input the rule set blocks is blocked after every history, and the exact matched_patterns")
    ctx.note("not asserted: callbacks that raise (on_threat / on_inflammation) - the statement quantifies over input "
             "strings; callbacks answer a truthy value in the 'alt' configurations")
    ctx.note("not exercised: built-in regex <\\|.*\\|> is quadratic on '<|'*50000 (minutes); totality, not latency, is the claim")
    ctx.assumptions += [
        "characters whose case folding differs between str.lower() and re.IGNORECASE (U+017F, U+212A, U+0130, ...) are "
        "don't-care and never enumerated; inputs use ASCII + a small set of non-ASCII characters with 1:1 case maps, "
        "control characters and lone surrogates",
        "the reference regex matcher is cross-checked against re.compile(p, re.I).search on every evaluated pair",
        "validator reference is one-directional: only inputs the documented rule must reject are asserted "
        "(JSON: invalid by RFC 8259 grammar, nesting > max_depth, size > max_size; NaN/Infinity are don't-care)",
        "signature subsets: every subset of a generated family (4 signatures quick / 8 thorough) is installed on the "
        "membrane; for the remaining combinations the scan's per-signature independence is relied on (built-ins are "
        "always active - the public constructor cannot remove them); the innate gate is run with built-ins only and "
        "with built-ins + all generated patterns",
        "engine A (membrane), thorough tier: full alphabet to depth 6 plus the core alphabet (7 inputs, 2 learnable "
        "patterns, default options) to depth 7; `states`/`distinct_nontrivial` count the full-alphabet run only (the "
        "core-alphabet states are a subset up to depth 6), `transitions` counts both",
        "engine A (membrane): 8 inputs, 4 learnable patterns (2 texts with both regex-nesses / a case twin), 1 custom "
        "signature, advances {1,59,61} s, rate_limit in {None,0,1,2}, one root with console output + on_threat callback "
        "+ non-default signal envelope",
        "engine A (innate): 9 inputs, 2 addable patterns, 2 addable validators, advances {60, 960} s, "
        "severity_threshold x inflammation_decay_minutes x option set per root; the second gate is never modified",
        "engine A canonical key: generic fingerprint of vars() of every gate of the state (recursively; instants "
        "relative to the virtual clock; objects of the class-level tables as one token) + the reference state. Left "
        "out, located by behaviour on a probe gate and never by name: containers emptied by clear_audit_log() and "
        "private int fields that only grow over a probe history that sets, expires and resets all other state (call "
        "counters); the clone self-check compares the full fingerprint (nothing left out) of original, clone and replay",
        "'alt' option set: silent=False (stdout swallowed), callback installed (answers True), rate_limit=10**9, "
        "inflammation_decay_minutes=0, Signal(source='System', INTERNAL, SATURATING, metadata, trace_id)",
    ]


def replay(ctx, case):
    if case.get("engine") == "D":
        spec = _unspec(case["spec"])
        if case["gate"] == "M":
            v, out, _ = eval_membrane(case["threshold"], case["channel"], spec, subset=case.get("subset"),
                                      opts=case.get("opts", "std"))
        else:
            v, out, _ = eval_innate(case["threshold"], case["channel"], case.get("vset"), spec,
                                    opts=case.get("opts", "std"))
        print("  outcome:", out)
        return v
    root = case["root"]
    innate = len(root) == 3 and isinstance(root[2], str)
    return explore.replay_case(IModel(ctx.tier) if innate else AModel(ctx.tier), case)


def _unspec(spec):
    return [p if isinstance(p, str) else list(p) for p in spec]
