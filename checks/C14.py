"""C14 — coordinated operations release every resource on every exit path.

Engine B (stateless choice-point search, mc/choice.py) over the real CoordinationSystem /
IntegratedCell / manual controller API, followed by engine A (mc/explore.py) for the
"followed by arbitrary further operations" clause.

Scenario (enumerated exhaustively, outer product): driver mode (one-shot execute_operation,
IntegratedCell.execute, manual start/advance/acquire/.../complete|abort) x request list over
r1..r3 (length 0..3, repeats included; the empty list also as resources=None) x priority {0,5,9}
(below / between / EQUAL to the holders' priorities) x validate_fn present/absent x for
every requested resource {free, held by a live priority-0 holder, held by a priority-9 holder}
x {preemptable, not} x system variant {total-time watchdog limit; the same after a HISTORY on
the same system (the same operation id committed on all resources, failed in work, was killed
while holding; resources first registered through system.register_resource and re-registered);
only the per-phase watchdog limits (starvation / no progress); limit timedelta(0); limit None;
IntegratedCell with pool_capacity=0, degradation_threshold=1.0 and the agent registered with
surveillance}. Choice points inside one run (ch.pick, 0 = benign): every phase
checkpoint {default, false, None, 0, truthy non-bool, raise, raise with an EMPTY message, raise
StopIteration, then an external ending}, work_fn {return a value, return None, return 0, raise,
raise with an empty message, raise StopIteration, external ending, nested higher-priority
preemptor}, validate_fn {true, truthy non-bool, false, None, 0, "", raise, raise with an empty
message, raise KeyError(''), external ending};
manual driver: external ending between any two steps, retry after a failed checkpoint, abort
instead of complete. One-shot drivers (execute_operation / IntegratedCell.execute), whose
acquisition loop and release loops contain no user callback: the resources are ProbeLock objects
(a ResourceLock subclass registered through the public controller.register_resource), and every
try_acquire / release the library issues for the operation - k-th acquisition incl. re-entrant
repeats, preempting and blocked ones; every release on every exit path, incl. the releases made
by an ending itself - is a choice point {default, external ending right before the lock step,
external ending right after it (lock changed, controller bookkeeping not yet)}.
Re-registration mid-operation (an external event like the endings, offered at every choice point that offers
endings: every checkpoint / work / validate callback, every lock step before and after, manual driver between any
two steps and before complete): a requested resource id is registered again through the public
system.register_resource, with the same and with the toggled preemption flag - before the operation acquires it,
while it holds it (booked or granted-not-yet-booked), after it released it.  What the call does to the registered
resource (exchanges the lock, keeps the holder, ignores or rejects the call) is observed, not prescribed; the exit
state is judged: for a re-registered resource the final state must be what the re-registration left or free, never
owned by the operation; which other resources were obtained is then taken from the observed lock grants; the twin of
the follow-up sees the same re-registrations.
External endings: kill_operation, watchdog (virtual clock jumps an hour, run_maintenance),
shutdown. Whether the operation is LIVE when an ending is issued is decided from the history of
calls (driver call not returned, no ending issued before), not from the controller's tables;
without a total-time limit a maintenance call is an ending iff its public report names the
operation (or the operation is gone), otherwise the operation goes on and is judged as usual.

Oracle (from the statement): whenever an ending call returns (kill/shutdown/maintenance
inside a callback, and the driver call itself): no registered resource is owned by the
operation (only exemption: at the return of an ending issued from inside a lock step, the lock
that step has just granted and the controller has not booked yet - it must be free when the
driver call returns), the operation is not in active_operations; at the end every resource the operation
never obtained has exactly its pre-call (owner, hold_count, owner_priority); work_fn ran at most
once and at entry owned every requested resource; validation started only after work returned;
success => work returned and validation (if any) returned truthy.
Follow-up (engine A, differential): on every distinct final system state, sequences of further
operations (new id / re-used id, every request shape, holders completing, maintenance) must be
observably identical on the real system and on a twin on which the first operation never ran.
"""
from __future__ import annotations

import itertools
from datetime import timedelta

from mc import choice, common, explore, vclock

import operon_ai.cell as _cell_mod
import operon_ai.coordination.controller as _controller_mod
import operon_ai.coordination.priority as _priority_mod
import operon_ai.coordination.system as _system_mod
import operon_ai.coordination.types as _types_mod
import operon_ai.coordination.watchdog as _watchdog_mod
from operon_ai.cell import IntegratedCell
from operon_ai.coordination.system import CoordinationSystem
from operon_ai.coordination.types import CheckpointResult, LockResult

vclock.install_global([_types_mod, _controller_mod, _watchdog_mod, _priority_mod, _system_mod, _cell_mod])

RES = ("r1", "r2", "r3")
OP = "op"
HOLD_KINDS = ("free", "H0", "H9")  # nobody / live holder with priority 0 / with priority 9
UNREQUESTED = ("H0", True)  # a resource that is not requested is held by a weak, preemptable holder
EXT = ("kill", "watchdog", "shutdown")
MAX_OP_TIME = 60
PRIOS = (0, 5, 9)  # below / between / equal to the strongest holder (and equal / above the weakest)
# watchdog configuration: total-time limit (the clock jumps far beyond it) | only the per-phase limits (starvation in
# G1, no progress in S: the watchdog ends the operation at some points and spares it at others) | limit 0 | no limit
WD_KINDS = ("max", "phase", "zero", "none")


class Injected(Exception):
    """raised by callbacks on the 'raise' answer"""


# More callback answers (appended after the original ones): falsy / truthy values that are not bools, exceptions with
# an EMPTY message and of a class with a meaning of its own.
FALSY = {"none": None, "zero": 0, "empty": ""}
RAISES = {"raise-empty": Injected, "raise-stopiteration": StopIteration, "raise-keyerror-empty": lambda: KeyError("")}
CP_MORE = ("none", "zero", "raise-empty", "raise-stopiteration", "truthy")
WORK_MORE = ("none", "zero", "raise-empty", "raise-stopiteration")
VALIDATE_MORE = ("none", "zero", "empty", "raise-empty", "raise-keyerror-empty", "truthy")


# ---------------------------------------------------------------- one scenario run

class Env:
    pass


class ProbeLock(_types_mod.ResourceLock):
    """A plain ResourceLock (registered through the public controller.register_resource) whose two
    state-changing steps report to the harness: probe(kind, lock, owner, do) must call do() exactly
    once and return its value. Without a probe it IS a ResourceLock."""

    probe = None

    def try_acquire(self, owner, priority=0):
        do = lambda: _types_mod.ResourceLock.try_acquire(self, owner, priority)  # noqa: E731
        return do() if self.probe is None else self.probe("acquire", self, owner, do)

    def release(self, owner):
        do = lambda: _types_mod.ResourceLock.release(self, owner)  # noqa: E731
        return do() if self.probe is None else self.probe("release", self, owner, do)


def lock_state(system):
    return {r: (l.owner, l.hold_count, l.owner_priority) for r, l in system.controller.resources.items()}


def build_system(scn, cell_mode):
    wd = scn.get("wd", "max")
    limit = timedelta(seconds=MAX_OP_TIME)
    total = {"max": limit, "phase": None, "zero": timedelta(0), "none": None}[wd]
    if cell_mode:
        if scn.get("cellopt"):  # the options of the cell away from their defaults + an agent known to surveillance
            cell = IntegratedCell(pool_capacity=0, degradation_threshold=1.0, max_operation_time=total)
            cell.register_agent("agent")
        else:
            cell = IntegratedCell(max_operation_time=total)
        system = cell.coordination
    else:
        cell = None
        if wd == "phase":
            system = CoordinationSystem(max_operation_time=None, starvation_timeout=limit, progress_timeout=limit)
        else:
            system = CoordinationSystem(max_operation_time=total)
    return cell, system


def raising_work():
    raise Injected("history")


def run_history(system):
    """What happened on the system before the judged operation: the SAME id committed on every resource (one of them
    twice), failed in its work function, and was killed while holding a resource (public API only)."""
    ctl = system.controller
    viols = []

    def ended(path):
        owned = sorted(r for r, l in ctl.resources.items() if l.owner is not None)
        if owned or ctl.active_operations:
            viols.append((f"leak:history-operation:{path}", f"an earlier operation '{OP}' on a system with free resources only "
                          f"(exit path {path}) left {owned} owned, active operations {sorted(ctl.active_operations)}"))

    system.execute_operation(OP, "agent0", trivial_work, resources=list(RES) + [RES[0]], priority=7)
    ended("commit")
    system.execute_operation(OP, "agent0", raising_work, resources=[RES[1]], priority=1)
    ended("work-raise")
    ctx = system.start_operation(OP, "agent0", 3)
    ctl.advance(ctx)
    ctl.acquire_resource(ctx, RES[2])
    system.kill_operation(OP, reason="history")
    ended("kill")
    return viols


def add_holders(system, clock, hold, only=None, history=False):
    """register r1..r3 and start the holder operations (public manual API)"""
    if history:
        for r in RES:  # first registration through the system API with the opposite flag: replaced just below
            system.register_resource(r, allow_preemption=not hold[r][1])
    for r in RES:
        kind, pre = hold[r]
        system.controller.register_resource(ProbeLock(resource_id=r, allow_preemption=bool(pre)))
    if history:
        viols = run_history(system)
        if viols:
            return viols  # the statement is already violated by the history itself: nothing to set up on top of it
    for r in RES:
        kind, pre = hold[r]
        if kind == "free" or (only is not None and r not in only):
            continue
        h = system.start_operation("H_" + r, "holder", priority=0 if kind == "H0" else 9)
        h.created_at = clock.now()  # dataclass default is bound to the real clock
        h.phase_entered_at = clock.now()
        h.metadata["watchdog_exempt"] = True  # library feature: the watchdog spares it
        system.controller.advance(h)
        got = system.controller.acquire_resource(h, r)
        if got != LockResult.ACQUIRED:
            raise common.HarnessError(f"holder set-up: {got}")
    return []


def full_hold(scn):
    hold = {r: UNREQUESTED for r in RES}
    for r, cfg in scn["hold"].items():
        hold[r] = tuple(cfg)
    return hold


def predict_obtained(req, prio, locks, pre):
    """Reference (lock contract: free -> acquired, own -> re-entrant, preemptable and strictly higher
    priority -> preempted, else blocked and the operation fails there): which resources does the
    operation obtain, and at which request index is it blocked (None = never)."""
    own = set()
    for i, r in enumerate(req):
        owner, _n, oprio = locks[r]
        if r in own or owner == OP:
            own.add(r)
        elif owner is None:
            own.add(r)
        elif pre[r] and prio > oprio:
            own.add(r)
        else:
            return own, i
    return own, None


def run_scenario(scn, ch):
    """Executes ONE scenario on fresh objects. Returns dict(viols, outcome, final, expected, env)."""
    env = Env()
    env.scn = scn
    env.ch = ch
    env.viols = []
    env.done = False  # after the scenario: wrappers become transparent (follow-up phase)
    env.ext = []  # external endings that happened, in order
    env.faults = []  # injected callback faults
    env.work_runs = 0
    env.work_returned = False
    env.validate_runs = 0
    env.acq_snapshot = None
    env.manual_obtained = None
    env.owned_ever = set()  # resources a lock step has granted to the operation so far
    env.not_yet = None  # resources not yet granted when the FIRST external ending happened
    env.lock_steps = {"acquire": 0, "release": 0}
    env.inflight = None  # lock granted inside the current lock step, not yet booked by the controller
    env.ended = False  # an external ending has been issued to the live operation (the OBSERVER's history of calls)
    env.saw_blocked = False  # a lock step of the operation answered BLOCKED
    env.rereg = {}  # resource id -> state of the REGISTERED resource observed right after the harness re-registered it (last time)
    env.rereg_calls = []  # (resource id, allow_preemption) of every re-registration call that returned, in order
    wd = scn.get("wd", "max")
    env.clock = clock = vclock.VClock()
    vclock.use(clock)
    mode = scn["mode"]
    req = list(scn["req"])
    prio = scn["prio"]
    hold = full_hold(scn)
    pre = {r: bool(hold[r][1]) for r in RES}
    env.cell, env.system = cell, system = build_system(scn, mode == "cell")
    ctl = system.controller
    env.viols += add_holders(system, clock, hold, history=bool(scn.get("history")))
    env.pre_state = lock_state(system)
    if env.viols:
        env.success, env.exit_path, env.final, env.expected, env.error = None, "history", env.pre_state, env.pre_state, None
        env.done = True
        env.outcome = (mode, "history", None, 0, 0, tuple(sorted(env.final.items())))
        return env

    def bad(key, what):
        env.viols.append((key, what))

    def check_ended(where, text=None):
        """an ending call has returned: nothing owned, not active"""
        text = text or where
        owned = sorted(r for r, l in ctl.resources.items() if l.owner == OP and r != env.inflight)
        if owned:
            multi = any(req.count(r) > 1 for r in owned)
            bad(f"leak:{'reentrant-request' if multi else 'single-request'}:{where}",
                f"after {text} returned, {owned} still owned by '{OP}' "
                f"({ {r: lock_state(system)[r] for r in owned} }) for request list {req}")
        if OP in ctl.active_operations:
            bad(f"still-active:{where}", f"after {text} returned '{OP}' is still in active_operations")

    # re-registration of a requested resource id through the public system.register_resource, an external event like
    # the endings: (resource, same preemption flag | toggled flag), offered at every choice point that offers endings
    RR = [(r, t) for r in sorted(set(req)) for t in (False, True)]
    rr_first = scn.get("rr") == "first"  # offered only as the FIRST non-default answer of a run (see scenarios())

    def n_rr():
        """how many re-registration answers this choice point offers"""
        if rr_first and any(c for _n, _l, c in ch.trace):
            return 0
        return len(RR)

    def reregister(i, where):
        rid, toggle = RR[i]
        flag = pre[rid] != toggle
        env.faults.append(f"rereg:{rid}")
        try:
            system.register_resource(rid, allow_preemption=flag)
        except Exception:  # noqa: BLE001 - rejected: the statement does not say it must be accepted
            pass
        else:
            pre[rid] = flag
            env.rereg_calls.append((rid, flag))
        # whatever the call did to the registered resource (replaced it by a free one, kept the holder, ignored or
        # rejected the call) is the environment's own touch: observed here, the oracle judges the exit state
        st = lock_state(system).get(rid)
        env.rereg[rid] = st
        if st is not None and st[0] == OP:
            env.owned_ever.add(rid)

    def external(i, where):
        name = EXT[i]
        # Is the operation live?  Decided from the history of calls (its driver call has not returned and no ending
        # was issued to it before), never from the controller's own tables.
        was_live = not env.ended
        not_yet = set(RES) - env.owned_ever
        took = was_live
        if name == "kill":
            system.kill_operation(OP, reason="manual")
        elif name == "watchdog":
            clock.advance(3600)
            events = (cell or system).run_maintenance()
            if wd != "max":
                # without a total-time limit the watchdog ends the operation in some phases only (or never): it is an
                # ending iff the maintenance call says so (its public report) or the operation is gone afterwards
                apo = (events["coordination"] if cell else events)["apoptosis"]
                took = was_live and (any(e.operation_id == OP for e in apo) or OP not in ctl.active_operations)
                if not took:
                    env.faults.append("maintenance")  # spared: not an ending, the operation goes on
                    return
        else:
            (cell or system).shutdown()
        env.ext.append(name)
        if took:
            env.ended = True
            if env.not_yet is None:
                # the statement lets a driver stop at the ending (these stay untouched) as well as carry
                # on, obtain them and release them at the end
                env.not_yet = not_yet
            check_ended(name, f"{name} (issued at {where})")
        # else: it had been ended before and its driver is still winding down (possible only from inside
        # a lock step): this call is not the operation's ending; judged when the driver call returns

    def probe(kind, lock, owner, do):
        """every lock step the library issues for the operation; in the one-shot modes a choice point"""
        if env.done or owner != OP:
            return do()
        rid = lock.resource_id
        k = env.lock_steps[kind]
        env.lock_steps[kind] = k + 1
        ne = 1 + 2 * len(EXT)
        c = ch.pick(ne + 2 * n_rr(), f"{kind}:{k}:{rid}") if mode != "manual" else 0
        rr = c - ne if c >= ne else None  # re-registration right before (even) / right after (odd) the lock step
        if rr is not None:
            c = 0
        if 1 <= c <= len(EXT):
            external(c - 1, f"right before {kind} step #{k} on {rid}")
        if rr is not None and rr % 2 == 0:
            reregister(rr // 2, f"right before {kind} step #{k} on {rid}")
        got = do()
        if kind == "acquire" and got == LockResult.BLOCKED:
            env.saw_blocked = True
        fresh = kind == "acquire" and got in (LockResult.ACQUIRED, LockResult.PREEMPTED)
        if kind == "acquire" and (fresh or got == LockResult.REENTRANT):
            env.owned_ever.add(rid)
        if c > len(EXT):
            # the lock has changed, the controller has not booked it yet: a freshly granted lock is
            # unknown to the ending and is judged when the driver call returns
            # (neither to any ending nested in it) and is judged when the driver call returns
            outer = env.inflight
            if fresh:
                env.inflight = rid
            try:
                external(c - 1 - len(EXT), f"inside {kind} step #{k} on {rid}, after the lock answered {got}")
            finally:
                env.inflight = outer
        if rr is not None and rr % 2 == 1:
            reregister(rr // 2, f"inside {kind} step #{k} on {rid}, after the lock answered {got}")
        return got

    for lock in ctl.resources.values():
        lock.probe = probe
    env.reregister, env.n_rereg = reregister, n_rr

    def fix_created(ctx):
        if ctx.operation_id == OP and not getattr(ctx, "_c14_fixed", False):
            ctx.created_at = clock.now()
            ctx._c14_fixed = True

    def wrap_cp(phase, orig):
        def cond(ctx):
            if env.done or ctx.operation_id != OP:
                return orig(ctx)
            fix_created(ctx)
            nb = 3 + len(EXT)
            c = ch.pick(nb + len(CP_MORE) + n_rr(), f"cp:{phase}")
            if c >= nb + len(CP_MORE):
                reregister(c - nb - len(CP_MORE), f"cp:{phase}")
                c = 0
            more = CP_MORE[c - nb] if c >= nb else None
            if c == 1 or more in ("none", "zero"):
                env.faults.append(f"cp-false:{phase}")
                r = False if c == 1 else FALSY[more]  # falsy non-bool answers: None, 0
            elif c == 2 or more in RAISES:
                env.faults.append(f"cp-raise:{phase}")
                if phase == "G0" and env.acq_snapshot is None:
                    env.acq_snapshot = lock_state(system)
                raise (Injected(f"checkpoint {phase}") if c == 2 else RAISES[more]())
            elif more == "truthy":
                orig(ctx)
                r = "yes"  # truthy non-bool instead of the default answer
            else:
                if c >= 3:
                    external(c - 3, f"cp:{phase}")
                r = orig(ctx)
            if phase == "G0" and env.acq_snapshot is None:
                env.acq_snapshot = lock_state(system)  # acquisitions start right after this callback
            return r
        return cond

    for phase, cps in ctl.checkpoints.items():
        for cp in cps:
            cp.condition = wrap_cp(phase.name, cp.condition)

    def work_fn():
        env.work_runs += 1
        if env.work_runs > 1:
            bad("work-ran-twice", f"work_fn entered {env.work_runs} times")
        # (a resource id the environment re-registered in this run is exempt: what "holds" means after the registered
        # lock was exchanged under the operation is not defined by the statement)
        missing = sorted(r for r in set(req) if ctl.resources[r].owner != OP and r not in env.rereg)
        if missing:
            why = ("after-" + env.ext[-1]) if env.ext else "no-external-ending"
            bad(f"work-without-resources:{why}", f"work_fn entered while {missing} of request {req} are not owned by "
                f"'{OP}' (owners { {r: ctl.resources[r].owner for r in missing} }, endings so far {env.ext})")
        owned = sorted(r for r in set(req) if ctl.resources[r].owner == OP)
        n = 2 + len(EXT) + (1 if owned else 0)
        c = ch.pick(n + len(WORK_MORE) + n_rr(), "work")
        if c >= n + len(WORK_MORE):
            reregister(c - n - len(WORK_MORE), "work")
            c = 0
        more = WORK_MORE[c - n] if c >= n else None
        if c == 1 or more in RAISES:
            env.faults.append("work-raise")
            raise (Injected("work") if c == 1 else RAISES[more]())
        if 2 <= c < 2 + len(EXT):
            external(c - 2, "work")
        elif c == 2 + len(EXT) and more is None:
            # a nested operation of higher priority asks for what we hold (preempts where allowed)
            env.faults.append("nested-preemptor")
            system.execute_operation("N", "nested", lambda: "n", resources=owned, priority=prio + 4)
            left = sorted(r for r, l in ctl.resources.items() if l.owner == "N")
            if left or "N" in ctl.active_operations:
                bad("leak:nested-operation", f"nested one-shot operation left {left} owned / active")
        env.work_returned = True
        return FALSY[more] if more in FALSY else "result"  # work may return None / a falsy value

    def validate_fn(result):
        env.validate_runs += 1
        if not env.work_returned:
            bad("validate-before-work-completed", "validate_fn entered before work_fn returned")
        nb = 3 + len(EXT)
        c = ch.pick(nb + len(VALIDATE_MORE) + n_rr(), "validate")
        if c >= nb + len(VALIDATE_MORE):
            reregister(c - nb - len(VALIDATE_MORE), "validate")
            c = 0
        more = VALIDATE_MORE[c - nb] if c >= nb else None
        if c == 1 or more in FALSY:
            env.faults.append("validate-false")
            return False if c == 1 else FALSY[more]  # falsy non-bool answers: None, 0, ""
        if c == 2 or more in RAISES:
            env.faults.append("validate-raise")
            raise (Injected("validate") if c == 2 else RAISES[more]())
        if 3 <= c < nb:
            external(c - 3, "validate")
        env.validate_ok = True
        return "ok" if more == "truthy" else True

    env.validate_ok = False
    vfn = validate_fn if scn["validate"] else None
    success = None
    try:
        if mode == "oneshot":
            res = system.execute_operation(OP, "agent", work_fn, resources=None if scn.get("resnone") else list(req),
                                           validate_fn=vfn, priority=prio)
            success = bool(res.success)
            env.error = res.error
        elif mode == "cell":
            res = cell.execute("agent", OP, work_fn, resources=None if scn.get("resnone") else list(req), validate_fn=vfn,
                               priority=prio)
            success = bool(res.success)
            env.error = res.error
        else:
            success = manual_driver(env, system, req, prio, work_fn, vfn, external)
            env.error = None
    except choice.TooManyChoices:
        raise
    except Exception as e:  # noqa: BLE001 - the drivers promise a result object, not an exception
        bad(f"driver-raises:{type(e).__name__}", f"{mode} driver raised {type(e).__name__}: {e}")
        success = None
    env.success = success

    # ---- exit path name (for keys) and final judgement
    if env.ext:
        exit_path = env.ext[-1]
    elif [f for f in env.faults if f not in ("nested-preemptor", "maintenance") and not f.startswith(("retry:", "rereg:"))]:
        exit_path = [f for f in env.faults if f not in ("nested-preemptor", "maintenance")
                     and not f.startswith(("retry:", "rereg:"))][-1].split(":")[0]
    elif env.rereg:  # (the reference prediction describes an undisturbed acquisition loop)
        exit_path = "commit" if success else ("blocked" if env.saw_blocked else "other-failure")
    else:
        snap = env.acq_snapshot or env.pre_state
        _own, blocked_at = predict_obtained(req, prio, snap, pre)
        exit_path = "blocked" if blocked_at is not None else ("commit" if success else "other-failure")
    if env.rereg:
        exit_path += "+reregistered"
    env.exit_path = exit_path
    check_ended(exit_path, f"the {mode} driver call (exit path {exit_path})")

    snap = env.acq_snapshot or env.pre_state
    obtained, _b = predict_obtained(req, prio, snap, pre)
    if mode == "manual" and env.manual_obtained is not None:
        obtained = set(env.manual_obtained)  # the manual driver saw every acquire result itself
    elif env.rereg:
        # the reference prediction describes an undisturbed acquisition loop; in a run in which the environment
        # exchanged a registered lock, what the operation obtained is what the lock steps were seen to grant
        obtained = set(env.owned_ever)
    final = lock_state(system)
    expected = {}
    for r in RES:
        if "shutdown" in env.ext:
            expected[r] = (None, 0, 0)  # every operation was ended
        elif r in env.rereg:
            # re-registered by the environment during the run: grants on the library's new lock object are not
            # observable, so the exit state is either what the re-registration left (never obtained afterwards:
            # untouched) or free (obtained and released) -- never owned by the operation (leak clause above)
            after = env.rereg[r]
            expected[r] = final[r] if final[r] in (after, (None, 0, 0)) and final[r][0] != OP else (None, 0, 0)
            if final[r] == (None, 0, 0):
                obtained = obtained | {r}
            else:
                obtained = obtained - {r}
        elif r in obtained and env.not_yet is not None and r in env.not_yet and final[r] == env.pre_state[r]:
            # ended before it was granted this one: the statement allows the driver to stop there
            # (never obtained) as well as to carry on and release at the end
            expected[r] = env.pre_state[r]
            obtained = obtained - {r}
        elif r in obtained:
            expected[r] = (None, 0, 0)
        else:
            expected[r] = env.pre_state[r]
    env.expected = expected
    for r in RES:
        if final[r] != expected[r] and final[r][0] != OP:  # ownership by OP itself is the leak clause above
            if r in obtained:
                bad(f"obtained-resource-not-free:{exit_path}", f"{r} was obtained by '{OP}' and is {final[r]} at return")
            else:
                bad(f"touched-unobtained:{exit_path}", f"{r} was never obtained by '{OP}' (request {req}, priority {prio}, "
                    f"before {env.pre_state[r]}) but is {final[r]} at return")
    if success:
        if env.work_runs == 0 or not env.work_returned:
            bad("success-without-work", f"success reported, work_fn runs={env.work_runs} returned={env.work_returned}")
        if scn["validate"] and not env.validate_ok:
            bad("success-with-failed-validation", f"success reported, validation faults {env.faults}")
    env.final = final
    env.done = True
    env.outcome = (mode, exit_path, success, env.work_runs, env.validate_runs, tuple(sorted(final.items())))
    return env


def manual_driver(env, system, req, prio, work_fn, vfn, external):
    """A caller using the manual API the way execute_operation does; returns success (bool)."""
    try:
        return _manual_driver(env, system, req, prio, work_fn, vfn, external)
    except _Ended:
        return False


class _Ended(Exception):
    pass


def _manual_driver(env, system, req, prio, work_fn, vfn, external):
    ch = env.ch
    ctl = system.controller
    env.manual_obtained = set()

    def between(where):
        """external ending between two API calls; True = the operation was ended, caller stops"""
        c = ch.pick(1 + len(EXT) + env.n_rereg(), f"between:{where}")
        if c > len(EXT):
            env.reregister(c - 1 - len(EXT), where)  # not an ending: the caller goes on
        elif c:
            external(c - 1, where)
        return env.ended  # (a maintenance call that spares the operation is not an ending: the caller goes on)

    def advance(ctx, name):
        r = ctl.advance(ctx)
        if r != CheckpointResult.PASSED and ch.pick(2, f"retry:{name}"):
            env.faults.append(f"retry:{name}")
            r = ctl.advance(ctx)  # false-then-pass
        if env.ended:
            # the operation was ended from inside a checkpoint callback (the caller issued that ending itself). In this
            # mode acquiring and running work is the CALLER's job: a careful caller stops using a dead operation
            raise _Ended()
        return r == CheckpointResult.PASSED

    ctx = system.start_operation(OP, "agent", prio)
    ctx.created_at = env.clock.now()
    ctx._c14_fixed = True
    if between("after-start"):
        return False
    advance(ctx, "G0")  # execute_operation ignores this result as well
    if env.acq_snapshot is None:
        env.acq_snapshot = lock_state(system)
    for i, r in enumerate(req):
        got = ctl.acquire_resource(ctx, r)
        if got == LockResult.BLOCKED:
            env.saw_blocked = True
            ctl.abort_operation(ctx, reason=f"blocked on {r}")
            return False
        env.manual_obtained.add(r)
        if between(f"after-acquire-{i}"):
            return False
    ctx.resources_acquired = True
    if not advance(ctx, "G1"):
        ctl.abort_operation(ctx, reason="G1 checkpoint")
        return False
    try:
        result = work_fn()
    except Exception as e:  # noqa: BLE001
        ctl.abort_operation(ctx, reason=f"work failed: {e}")
        return False
    ctx.set_result(result)
    ctx.execution_complete = True
    if between("after-work"):
        return False
    if not advance(ctx, "S"):
        ctl.abort_operation(ctx, reason="S checkpoint")
        return False
    if vfn is not None:
        try:
            ok = vfn(result)
        except Exception as e:  # noqa: BLE001
            ctl.abort_operation(ctx, reason=f"validation raised: {e}")
            return False
        if not ok:
            ctl.abort_operation(ctx, reason="validation failed")
            return False
    ctx.validation_passed = True
    if not advance(ctx, "G2"):
        ctl.abort_operation(ctx, reason="G2 checkpoint")
        return False
    c = ch.pick(2 + len(EXT) + env.n_rereg(), "finish")
    if c >= 2 + len(EXT):
        env.reregister(c - 2 - len(EXT), "before-complete")
        c = 0
    if c == 1:
        env.faults.append("caller-abort")
        ctl.abort_operation(ctx, reason="caller changed its mind")
        return False
    if c >= 2:
        external(c - 2, "before-complete")
        if env.ended:
            return False
    return bool(ctl.complete_operation(ctx).success)


# ---------------------------------------------------------------- scenario enumeration

def patterns(full):
    """request lists of length 0..3; full=False: one representative per renaming of r1..r3
    (resource ids are opaque dictionary keys to the library)"""
    out = []
    for n in range(4):
        for t in itertools.product(RES, repeat=n):
            if not full:
                ren = {}
                for r in t:
                    ren.setdefault(r, RES[len(ren)])
                if tuple(ren[r] for r in t) != t:
                    continue
            out.append(t)
    return out


# (watchdog configuration, history before the operation, cell options) per driver mode: the plain system with the
# total-time limit, the same after a history of the same id, and the other watchdog configurations
VARIANTS = {
    "oneshot": (("max", False, None), ("max", True, None), ("phase", False, None), ("zero", False, None)),
    "manual": (("max", False, None), ("max", True, None), ("phase", False, None), ("none", False, None)),
    "cell": (("max", False, False), ("max", True, True), ("none", False, True), ("zero", False, False)),
}


def scenarios(tier):
    """quick: one request list per renaming class x all priorities x all system variants.  thorough: the same plus
    every one of the 40 request lists x priorities {0,5} x the first (plain) variant - the renaming symmetry is not
    relied upon there.  With two deviations per run (thorough) a re-registration is offered only as the first
    non-default answer of a run: re-registration at any point, then any ending / fault at any later point (every exit
    path after a re-registration), but not fault-then-re-registration and not two re-registrations (measured: 100.7M
    instead of 50M executions otherwise)."""
    out = _scenarios(False, PRIOS, VARIANTS)
    if tier == "thorough":
        seen = {repr(sorted(s.items())) for s in out}
        out += [s for s in _scenarios(True, PRIOS[:2], {m: v[:1] for m, v in VARIANTS.items()})
                if repr(sorted(s.items())) not in seen]
        out = [dict(s, rr="first") for s in out]
    return out


def _scenarios(full, prios, variants):
    out = []
    cfgs = [(k, p) for k in HOLD_KINDS for p in (False, True)]
    for mode in ("oneshot", "cell", "manual"):
        for req in patterns(full):
            distinct = sorted(set(req))
            for combo in itertools.product(cfgs, repeat=len(distinct)):
                for prio in prios:
                    for validate in (True, False):
                        for wd, history, cellopt in variants[mode]:
                            scn = {"mode": mode, "req": list(req), "prio": prio, "validate": validate,
                                   "hold": {r: list(c) for r, c in zip(distinct, combo)}, "wd": wd, "history": history}
                            if mode == "cell":
                                scn["cellopt"] = cellopt
                            out.append(scn)
                            if not req and mode != "manual":
                                out.append(dict(scn, resnone=True))  # resources=None instead of []
    return out


def system_canon(system):
    ctl = system.controller
    res = tuple((r, l.owner, l.hold_count, l.owner_priority, l.allow_preemption) for r, l in sorted(ctl.resources.items()))
    # (per tracked resource: is the lock object the operation tracks the REGISTERED one?  After a re-registration it
    # need not be, and releasing the one does not free the other.)
    act = tuple((o, c.priority, tuple(sorted(_tracked(ctl, c)))) for o, c in sorted(ctl.active_operations.items()))
    edges = tuple((w, tuple(d)) for w, d in ctl.dependency_graph.edges.items())
    return (res, act, edges)


def _tracked(ctl, c):
    acq = c.acquired_resources
    if not hasattr(acq, "items"):
        return [(r, True) for r in acq]
    return [(r, l is ctl.resources.get(r)) for r, l in acq.items()]


def explore_chunk(args):
    """worker: all answer sequences (<= max_dev deviations) of a chunk of scenarios"""
    scns, max_dev = args
    execs = 0
    viols = []  # (key, what, case)
    outcomes = set()
    finals = {}  # canon of (real system, expected twin) -> representative follow-up root
    maxpicks = 0
    for scn in scns:
        scn_rank = repr(sorted(scn.items()))
        for ch, env in choice.explore(lambda c, s=scn: run_scenario(s, c), max_dev=max_dev, horizon=200):
            execs += 1
            if isinstance(env, tuple):
                viols.append(("harness:too-many-choices", str(env), {"scn": scn, "choices": ch.labelled()}))
                continue
            maxpicks = max(maxpicks, len(ch.trace))
            outcomes.add(env.outcome)
            case = {"scn": scn, "choices": ch.labelled()}
            if env.viols:
                for k, w in env.viols:
                    viols.append((k, f"{scn['mode']} request {scn['req']} prio {scn['prio']} holders {scn['hold']} "
                                     f"watchdog {scn.get('wd')} history {scn.get('history')} "
                                     f"answers {[(c, l) for c, l in ch.labelled() if c]}: {w}", case))
                continue
            key = (system_canon(env.system), tuple(sorted(env.expected.items())), "shutdown" in env.ext,
                   scn.get("wd"), bool(scn.get("history")))
            # representative: a run without re-registration if there is one, then the smallest answer list / scenario
            # (independent of how the scenarios are chunked and rotated)
            rank = (bool(env.rereg), case["choices"], scn_rank)
            if key not in finals or rank < finals[key][0]:
                finals[key] = (rank, case)
    return execs, viols, outcomes, finals, maxpicks


# ---------------------------------------------------------------- follow-up model (engine A)

class FSt:
    __slots__ = ("env", "twin", "clock")


def trivial_work():
    return "w"


class Followup:
    """state = (real system after the scenario, twin system on which the operation never ran)"""

    def __init__(self, roots):
        self._roots = roots

    def roots(self):
        return self._roots

    def build(self, root):
        scn = root["scn"]
        _ch, env = choice.replay(lambda c: run_scenario(scn, c), root["choices"], horizon=200)
        if isinstance(env, tuple) or env.viols:
            raise common.HarnessError(f"follow-up root does not replay cleanly: {root}")
        st = FSt()
        st.env = env
        st.clock = env.clock
        _cell, twin = build_system(scn, False)
        hold = full_hold(scn)
        keep = set() if "shutdown" in env.ext else {r for r in RES if env.expected[r][0] is not None}
        add_holders_twin(twin, st.clock, hold, keep, alive="shutdown" not in env.ext)
        for rid, flag in env.rereg_calls:  # the environment's own re-registrations happen in that world as well
            try:
                twin.register_resource(rid, allow_preemption=flag)
            except Exception:  # noqa: BLE001 - rejected there: any consequence shows in the differential comparison
                pass
        st.twin = twin
        return st

    def ops(self, st):
        o = []
        for oid in (OP, "new"):
            for prio in (0, 5):
                o.append(("exec", oid, prio, list(RES)))
                for r in RES:
                    o.append(("exec", oid, prio, [r]))
        o.append(("exec", OP, 5, ["r1", "r1"]))
        for r in RES:
            o.append(("holder-completes", r))
        o.append(("maintenance",))
        return o

    def _apply(self, system, op):
        ctl = system.controller
        if op[0] == "exec":
            res = system.execute_operation(op[1], "agent2", trivial_work, resources=list(op[3]), priority=op[2])
            ret = ("exec", bool(res.success), res.error)
        elif op[0] == "holder-completes":
            ctx = ctl.active_operations.get("H_" + op[1])
            ret = ("holder", bool(ctx) and bool(ctl.complete_operation(ctx).success))
        else:
            ev = system.run_maintenance()
            ret = ("maint", tuple((e.operation_id, e.reason.value) for e in ev["apoptosis"]),
                   tuple((b.operation_id, b.boosted_priority) for b in ev["priority_boosts"]))
        locks = tuple((r, l.owner, l.hold_count, l.owner_priority) for r, l in sorted(ctl.resources.items()))
        return (ret, locks, tuple(sorted(ctl.active_operations)), ctl.check_deadlock() is None)

    def step(self, st, op):
        vclock.use(st.clock)
        st.clock.advance(1)
        try:
            a = self._apply(st.env.system, op)
        except Exception as e:  # noqa: BLE001
            return [(f"followup-raises:{op[0]}:{type(e).__name__}", f"{op} raised {type(e).__name__}: {e}")]
        b = self._apply(st.twin, op)
        if a != b:
            field = ["result", "locks", "active", "deadlock-verdict"][[x != y for x, y in zip(a, b)].index(True)]
            return [(f"followup-differs:{op[0]}:{field}",
                     f"{op}: system that ran '{OP}' -> {a}; system on which it never ran -> {b}")]
        return []

    def canon(self, st):
        return (system_canon(st.env.system), system_canon(st.twin))

    def observe(self, st):
        return repr(self.canon(st)[0][0])


def add_holders_twin(twin, clock, hold, keep, alive):
    """the world as it would be had the operation never run, after its legitimate effects:
    holders it preempted are alive but own nothing; after shutdown nobody is alive"""
    for r in RES:
        twin.register_resource(r, allow_preemption=bool(hold[r][1]))
    if not alive:
        return
    for r in RES:
        kind, _pre = hold[r]
        if kind == "free":
            continue
        h = twin.start_operation("H_" + r, "holder", priority=0 if kind == "H0" else 9)
        h.created_at = clock.now()
        h.metadata["watchdog_exempt"] = True
        twin.controller.advance(h)
        if r in keep:
            twin.controller.acquire_resource(h, r)


# ---------------------------------------------------------------- run / replay

def run(ctx):
    scns = scenarios(ctx.tier)
    max_dev = 1 if ctx.tier == "quick" else 2
    chunks = common.chunked(common.rotate(scns, ctx.seed), common.NPROC * 8)
    results = common.pmap(explore_chunk, [(c, max_dev) for c in chunks])
    execs = 0
    finals = {}
    maxpicks = 0
    viols = []
    for e, v, outs, fin, mp in results:
        execs += e
        viols += v
        ctx.outcomes |= outs
        maxpicks = max(maxpicks, mp)
        for k, rc in fin.items():
            # representative must not depend on seed rotation: keep the smallest case
            if k not in finals or rc[0] < finals[k][0]:
                finals[k] = rc
    # deterministic first case per key regardless of rotation
    order = {"oneshot": 0, "manual": 1, "cell": 2}
    viols.sort(key=lambda x: (x[0], len(x[2]["scn"]["req"]), sum(1 for c, _l in x[2]["choices"] if c),
                              order[x[2]["scn"]["mode"]], repr(x[2])))
    for k, w, case in viols:
        ctx.report(k, w, {"phase": "scenario", **case})
    # final states reached without any re-registration / reached only through a re-registration
    roots = [finals[k][1] for k in sorted(finals, key=repr) if not finals[k][0][0]]
    roots_rr = [finals[k][1] for k in sorted(finals, key=repr) if finals[k][0][0]]
    n_outcomes = len(ctx.outcomes)  # scenario outcomes only (follow-up observations are added below)
    for r in roots[:3]:
        ctx.sample(r)
    depth = 2 if ctx.tier == "quick" else 3
    col = _Collect(ctx)
    fres = explore.explore(Followup(roots), col, depth, label="followup", validate_canon=100)
    fres_rr = explore.explore(Followup(roots_rr), col, depth - 1, label="followup_rereg", validate_canon=100)
    col.flush(ctx)
    ctx.stats["scenarios"] = len(scns)
    ctx.stats["executions"] = execs
    ctx.stats["distinct_final_states"] = len(roots)
    ctx.stats["distinct_final_states_only_with_reregistration"] = len(roots_rr)
    ftrans = fres["transitions"] + fres_rr["transitions"]
    ctx.coverage.update(
        states=len(roots) + len(roots_rr) + fres["states"] + fres_rr["states"],
        transitions=execs + ftrans,
        traces_validated_against_impl=execs + ftrans,
        evaluations=execs + ftrans,
        distinct_nontrivial=n_outcomes,
        rule="engine B: every scenario (mode x request list x priority x validate x holder configuration of the requested "
             f"resources x system variant: watchdog configuration / history of the same id / cell options) x every answer sequence with <= {max_dev} non-default answers at the checkpoint / work / validate "
             "/ between-steps / lock-step (one-shot modes: every try_acquire and release issued for the operation x "
             "{ending right before, ending right after} x {kill, watchdog, shutdown}) choice points, at each of which a "
             "requested resource id may also be re-registered through system.register_resource (same / toggled preemption "
             "flag; at lock steps right before and right after), each executed on a fresh real system; distinct_nontrivial = distinct "
             "(mode, exit path, success, work runs, validate runs, final lock table) outcomes. engine A: BFS to depth "
             f"{depth} of further operations from every distinct (final system state, expected world) pair, each step "
             "compared with a twin system on which the operation never ran; final states reached only through a "
             f"re-registration: the same to depth {depth - 1}",
        exhaustive=True,
        deviation_bound=max_dev,
        request_lists="all 40 lists over r1..r3 of length 0..3 for priorities {0,5} on the plain system variant; one list "
        "per renaming class (9) for priority 9 and the other system variants" if ctx.tier == "thorough"
        else "9 lists: one per renaming class of the 40 lists (resource ids are opaque keys)",
        scenarios=len(scns),
        scenario_executions=execs,
        max_choice_points_in_one_run=maxpicks,
        followup=fres,
        followup_after_reregistration=fres_rr,
    )
    ctx.assumptions += [
        "single-threaded: an external ending (kill / watchdog / shutdown) reaches a running one-shot operation only from "
        "inside one of its callbacks or from inside a lock step (try_acquire / release) of one of its registered "
        "ResourceLock objects; between API calls only in the manual driver (whose lock steps are not choice points: "
        "the caller drives them and has a between-steps choice point after each)",
        "an ending issued inside try_acquire right after the lock was granted cannot know that grant (the controller "
        "books it when try_acquire returns): that one lock is judged at the return of the driver call only; a "
        "kill / maintenance / shutdown call issued when the operation had already been ended is not an ending of it",
        "resources that are not requested are held by a priority-0 holder and preemptable (the most fragile setting)",
        "priorities {0,5,9} for the operation, {0,9} for holders; callback answers: bools, None, 0, '', truthy non-bools, "
        "exceptions with and without a message, StopIteration, KeyError('')",
        "system variants are crossed with every scenario but not all with each other (the history is combined with the "
        "total-time watchdog limit only)",
        "quick tier: request lists up to renaming of resources, at most 1 injected fault/ending per run; thorough: all "
        "lists (plain system variant, priorities 0 and 5; the other variants and priority 9 up to renaming), at most 2",
        "ResourceLock.waiting_list residue and holder priority boosts are not part of the judged state",
        "re-registration mid-operation: the effect of system.register_resource on a known id is observed, not prescribed; "
        "in such a run the 'work holds all requested resources' clause exempts the re-registered id, the obtained set is "
        "the set of observed lock grants (not the reference prediction), the re-registered resource must end as the "
        "re-registration left it or free, and the follow-up from final states only reachable that way is one level "
        "shallower; the library's new lock object is not a probe lock, so its lock steps are not choice points; with two "
        "deviations per run (thorough) a re-registration is only offered as the first non-default answer of a run",
    ]


class _Collect:
    """stands in for ctx inside explore(): buffers the reports so that they reach the real ctx in an
    order (and with a first case per key) that does not depend on VERIF_SEED's frontier rotation"""

    def __init__(self, ctx):
        self.seed, self.outcomes, self.stats, self.sample = ctx.seed, ctx.outcomes, ctx.stats, ctx.sample
        self.note, self.defer_harness_error = ctx.note, ctx.defer_harness_error
        self.buf = []

    def report(self, key, what, case):
        self.buf.append((key, len(case["hist"]), repr(case), what, case))

    def flush(self, ctx):
        for key, _n, _r, what, case in sorted(self.buf, key=lambda x: x[:3]):
            ctx.report(key, what, case)


def replay(ctx, case):
    if case.get("phase") == "scenario" or "scn" in case:
        scn = _thaw(case["scn"])
        _ch, env = choice.replay(lambda c: run_scenario(scn, c), [tuple(x) for x in case["choices"]], horizon=200)
        if isinstance(env, tuple):
            return [("harness:too-many-choices", str(env))]
        print("  exit path:", env.exit_path, "success:", env.success, "final locks:", env.final)
        return env.viols
    root = {"scn": _thaw(case["root"]["scn"]), "choices": [tuple(x) for x in case["root"]["choices"]]}
    m = Followup([root])
    st = explore.rebuild(m, root, [_thaw(o) for o in case["hist"]])
    return m.step(st, _thaw(case["op"]))


def _thaw(x):
    """JSON round trip turned lists into tuples: request lists must be lists again for the library"""
    if isinstance(x, tuple):
        return [_thaw(v) for v in x]
    if isinstance(x, dict):
        return {k: _thaw(v) for k, v in x.items()}
    return x
